(* Independent encoder for NetFlow v9 (RFC 3954 section 5) and IPFIX (RFC 7011 section 3),
   over abstract messages, and the decoder-vocabulary image of an abstract message. *)
From Coq Require Import String NArith List Bool.
From GF Require Import Base.Res Base.Bytes Base.Layout Model.NF.
Import ListNotations.
Open Scope N_scope.

(* field specifier: enterprise bit, information element id, length (65535 = variable), PEN *)
Record afield := { aEnt : bool; aId : N; aLen : N; aPen : N }.

Inductive aset :=
| ATmpl (ts : list (N * list afield))
| AOptTmpl (ts : list (N * (list afield * list afield)))
| AData (id : N) (fs : list afield) (recs : list (list bytes)) (pad : nat)
| AOptData (id : N) (sc op : list afield) (recs : list (list bytes * list bytes)) (pad : nat).

(* v9: SystemUptime UnixSeconds SequenceNumber SourceId ; IPFIX: ExportTime SequenceNumber Domain *)
Record amsg := { aVer : N; aHdr : list N; aSets : list aset }.

Definition enc_afield (f : afield) : bytes :=
  if aEnt f then enc_be 2 (32768 + aId f) ++ enc_be 2 (aLen f) ++ enc_be 4 (aPen f)
  else enc_be 2 (aId f) ++ enc_be 2 (aLen f).

(* RFC 7011 section 7: lengths below 255 in one byte, otherwise 255 and two bytes *)
Definition enc_value (f : afield) (v : bytes) : bytes :=
  if aLen f =? 65535 then
    (if lenN v <? 255 then [lenN v] else 255 :: enc_be 2 (lenN v)) ++ v
  else v.

Fixpoint enc_values (fs : list afield) (vs : list bytes) : bytes :=
  match fs, vs with
  | f :: fs', v :: vs' => enc_value f v ++ enc_values fs' vs'
  | _, _ => []
  end.

Definition enc_trec (t : N * list afield) : bytes :=
  enc_be 2 (fst t) ++ enc_be 2 (lenN (snd t)) ++ concat (map enc_afield (snd t)).

Definition enc_orec (ver : N) (t : N * (list afield * list afield)) : bytes :=
  let '(id, (sc, op)) := t in
  if ver =? 9 then
    enc_be 2 id ++ enc_be 2 (4 * lenN sc) ++ enc_be 2 (4 * lenN op)
      ++ concat (map enc_afield sc) ++ concat (map enc_afield op)
  else
    enc_be 2 id ++ enc_be 2 (lenN sc + lenN op) ++ enc_be 2 (lenN sc)
      ++ concat (map enc_afield sc) ++ concat (map enc_afield op).

Definition set_id (ver : N) (s : aset) : N :=
  match s with
  | ATmpl _ => if ver =? 9 then 0 else 2
  | AOptTmpl _ => if ver =? 9 then 1 else 3
  | AData id _ _ _ => id
  | AOptData id _ _ _ _ => id
  end.

Definition set_body (ver : N) (s : aset) : bytes :=
  match s with
  | ATmpl ts => concat (map enc_trec ts)
  | AOptTmpl ts => concat (map (enc_orec ver) ts)
  | AData _ fs recs pad => concat (map (enc_values fs) recs) ++ repeat 0 pad
  | AOptData _ sc op recs pad =>
      concat (map (fun r => enc_values sc (fst r) ++ enc_values op (snd r)) recs) ++ repeat 0 pad
  end.

Definition enc_set (ver : N) (s : aset) : bytes :=
  let b := set_body ver s in enc_be 2 (set_id ver s) ++ enc_be 2 (4 + lenN b) ++ b.

Definition set_records (s : aset) : N :=
  match s with
  | ATmpl ts => lenN ts
  | AOptTmpl ts => lenN ts
  | AData _ _ recs _ => lenN recs
  | AOptData _ _ _ recs _ => lenN recs
  end.

(* RFC 3954: Count = total number of records in the export packet *)
Definition rfc_count (sets : list aset) : N := fold_right (fun s a => set_records s + a) 0 sets.

Definition enc_sets (ver : N) (sets : list aset) : bytes := concat (map (enc_set ver) sets).

(* header as the decoder reports it *)
Definition full_hdr (m : amsg) : list N :=
  if aVer m =? 9 then rfc_count (aSets m) :: aHdr m
  else (16 + lenN (enc_sets (aVer m) (aSets m))) :: aHdr m.

Definition encode_nf (m : amsg) : bytes :=
  enc_be 2 (aVer m) ++
  enc_fields (if aVer m =? 9 then v9_hdr_ws else ipfix_hdr_ws) (full_hdr m) ++
  enc_sets (aVer m) (aSets m).

(* ---- the decoder-vocabulary image ------------------------------------------------------- *)
Definition field_of (pen : bool) (f : afield) : field :=
  if pen && aEnt f then {| fPenP := true; fType := aId f; fLen := aLen f; fPen := aPen f |}
  else {| fPenP := false; fType := aId f; fLen := aLen f; fPen := 0 |}.

Definition trec_of (ver : N) (t : N * list afield) : trec :=
  {| tId := fst t; tCount := lenN (snd t); tFields := map (field_of (ver =? 10)) (snd t) |}.

Definition orec_of (ver : N) (t : N * (list afield * list afield)) : orec :=
  let '(id, (sc, op)) := t in
  if ver =? 9 then
    {| oId := id; oA := 4 * lenN sc; oB := 4 * lenN op;
       oScopes := map (field_of false) sc; oOpts := map (field_of false) op |}
  else
    {| oId := id; oA := lenN sc + lenN op; oB := lenN sc;
       oScopes := map (field_of true) sc; oOpts := map (field_of true) op |}.

Definition dfields_of (pen : bool) (fs : list afield) (vs : list bytes) : list dfield :=
  map (fun fv => let f := field_of pen (fst fv) in
                 {| dPenP := fPenP f; dType := fType f; dPen := fPen f; dVal := Some (snd fv) |})
      (combine fs vs).

Definition flowset_of (ver : N) (s : aset) : flowset :=
  let len := 4 + lenN (set_body ver s) in
  let pen := ver =? 10 in
  match s with
  | ATmpl ts => FSTemplate (set_id ver s) len (map (trec_of ver) ts)
  | AOptTmpl ts =>
      if ver =? 9 then FSOptV9 1 len (map (orec_of ver) ts) else FSOptIPFIX 3 len (map (orec_of ver) ts)
  | AData id fs recs _ => FSData id len (map (dfields_of pen fs) recs)
  | AOptData id sc op recs _ =>
      FSOptData id len (map (fun r => (dfields_of pen sc (fst r), dfields_of pen op (snd r))) recs)
  end.

Definition store_after_set (st : store) (ver dom : N) (s : aset) : store :=
  match s with
  | ATmpl ts => add_trecs st ver dom (map (trec_of ver) ts)
  | AOptTmpl ts =>
      add_orecs st ver dom (if ver =? 9 then TplOptV9 else TplOptIPFIX) (map (orec_of ver) ts)
  | _ => st
  end.

Definition msg_dom (m : amsg) : N := nf_dom (aVer m) (full_hdr m).

Definition expected_store (st : store) (m : amsg) : store :=
  fold_left (fun s a => store_after_set s (aVer m) (msg_dom m) a) (aSets m) st.

Definition expected_pkt (m : amsg) : nfpkt :=
  {| pVer := aVer m; pHdr := full_hdr m; pSets := map (flowset_of (aVer m)) (aSets m) |}.

(* ---- well-formedness (boolean, so that generated cases provably satisfy it) -------------- *)
Definition wf_afield (ver : N) (f : afield) : bool :=
  (aLen f <? 65536) && (aPen f <? 4294967296) &&
  (if (ver =? 10) then (if aEnt f then aId f <? 32768 else aId f <? 32768)
   else (aId f <? 65536) && negb (aEnt f)).

Definition wf_value (f : afield) (v : bytes) : bool :=
  wfbb v && (if aLen f =? 65535 then lenN v <? 65536 else lenN v =? aLen f).

Fixpoint wf_values (fs : list afield) (vs : list bytes) : bool :=
  match fs, vs with
  | [], [] => true
  | f :: fs', v :: vs' => wf_value f v && wf_values fs' vs'
  | _, _ => false
  end.

Definition afields_size (pen : bool) (fs : list afield) : nat := template_size (map (field_of pen) fs).

Definition same_fields (pen : bool) (fs : list afield) (gs : list field) : bool :=
  let fix eq (a : list field) (b : list field) : bool :=
    match a, b with
    | [], [] => true
    | x :: a', y :: b' =>
        Bool.eqb (fPenP x) (fPenP y) && (fType x =? fType y) && (fLen x =? fLen y) && (fPen x =? fPen y) && eq a' b'
    | _, _ => false
    end in
  eq (map (field_of pen) fs) gs.

Definition wf_set (st : store) (ver dom : N) (s : aset) : bool :=
  let pen := ver =? 10 in
  (lenN (set_body ver s) <? 65532) &&
  match s with
  | ATmpl ts =>
      forallb (fun t => (fst t <? 65536) && (lenN (snd t) <? 65536) && forallb (wf_afield ver) (snd t)) ts
  | AOptTmpl ts =>
      forallb (fun t => let '(id, (sc, op)) := t in
                 (id <? 65536) && (4 * lenN sc <? 65536) && (4 * lenN op <? 65536) &&
                 (lenN sc + lenN op <? 65536) &&
                 forallb (wf_afield ver) sc && forallb (wf_afield ver) op) ts
  | AData id fs recs pad =>
      (256 <=? id) && (id <? 65536) &&
      match store_get st (tkey ver dom id) with
      | Some (TplData r) => same_fields pen fs (tFields r)
      | _ => false
      end &&
      forallb (wf_values fs) recs &&
      negb (Nat.eqb (afields_size pen fs) 0) && Nat.ltb pad (afields_size pen fs)
  | AOptData id sc op recs pad =>
      (256 <=? id) && (id <? 65536) &&
      match store_get st (tkey ver dom id) with
      | Some (TplOptV9 r) => (ver =? 9) && same_fields pen sc (oScopes r) && same_fields pen op (oOpts r)
      | Some (TplOptIPFIX r) => (ver =? 10) && same_fields pen sc (oScopes r) && same_fields pen op (oOpts r)
      | _ => false
      end &&
      forallb (fun r => wf_values sc (fst r) && wf_values op (snd r)) recs &&
      negb (Nat.eqb (afields_size pen sc + afields_size pen op) 0) &&
      Nat.ltb pad (afields_size pen sc + afields_size pen op)
  end.

Fixpoint wf_sets (st : store) (ver dom : N) (sets : list aset) : bool :=
  match sets with
  | [] => true
  | s :: r => wf_set st ver dom s && wf_sets (store_after_set st ver dom s) ver dom r
  end.

(* what RFC 3954 / RFC 7011 ask of a message *)
Definition wf_msg_rfc (st : store) (m : amsg) : bool :=
  ((aVer m =? 9) || (aVer m =? 10)) &&
  fits (if aVer m =? 9 then v9_hdr_ws else ipfix_hdr_ws) (full_hdr m) &&
  wf_sets st (aVer m) (msg_dom m) (aSets m).

(* the decoder bounds the number of flow sets of a v9 message by Count (records): the round
   trip additionally needs at least as many records as sets (every set non-empty suffices) *)
Definition v9_count_covers_sets (m : amsg) : bool :=
  if aVer m =? 9 then lenN (aSets m) <=? rfc_count (aSets m) else true.

Definition wf_msg (st : store) (m : amsg) : bool :=
  ((aVer m =? 9) || (aVer m =? 10)) &&
  fits (if aVer m =? 9 then v9_hdr_ws else ipfix_hdr_ws) (full_hdr m) &&
  v9_count_covers_sets m &&
  wf_sets st (aVer m) (msg_dom m) (aSets m).
