(* C02 -- a ghost allocation measure for one DecodeFlow call (decode + conversion to flow messages).

   gh_pipe k st e d = (bytes, width): an UPPER ESTIMATE of what the collector allocates for the datagram d
   in pipe state st, computed along the path the decoders take, and the number of fields of the widest
   template the datagram references (looked up in the exporter's template store when a data set is cut).
   The estimate is generous on purpose: every constant below dominates what the Go runtime was measured to
   allocate for the unit it stands for, and the check compares, on every run and for every input it sends,
       measured TotalAlloc  <=  gh_pipe + SLACK
   (bin/props/c02.py).  Proofs/GhostP.v proves  gh_pipe <= 15 MiB + 256 * length * (1 + width)  for EVERY
   state, exporter and byte string of at most 9000 bytes; with SLACK = 1 MiB the two give the budget of the
   property.  What the estimate depends on -- and what it does NOT depend on -- is the content of the
   theorem: the value of a count or length field inside the datagram enters only through slices that the
   decoders cap (sFlow: 1000 per sample / datagram; NetFlow v5: the 16-bit count). *)
From Coq Require Import String NArith List Bool.
From GF Require Import Base.Res Base.Bytes Base.Layout Model.NF Model.NFv5 Model.SFlow Model.Pipe.
Import ListNotations.
Open Scope N_scope.

(* ---- constants (bytes) -------------------------------------------------------------------------
   C_REC  one data / options-data record: DataRecord slot with append growth, the flow message taken from the
          pool or allocated, its protobuf encoding, the formatted payload kept by the transport (measured: 1427)
   C_FLD  one field of such a record: DataField slot, the boxed value, its conversion (measured: 113)
   C_TB   one byte of the body of a template-like set: a Field is 12 bytes for at least 4 wire bytes, records
          appended with growth
   C_SET  one flow set: its boxed struct and the slot in the set list (append growth)
   T_ERR  the one set at which decoding fails: a field slice pre-sized from a 16-bit count (65535 x 12 bytes)
          plus what was built before the error
   C_V5S  one pre-sized NetFlow v5 record slot (measured: 48)
   C_SFS  one pre-sized sFlow sample or record slot (16 / 24 bytes)
   C_SFB  one byte of an sFlow datagram: decoded record contents, the dissected header, one message per sample
   C_0    fixed cost of a call (message wrapper, errors, metrics labels) *)
Definition C_REC : N := 1850.
Definition C_FLD : N := 240.
Definition C_TB : N := 64.
Definition C_SET : N := 256.
Definition T_ERR : N := 1048576.
Definition C_V5S : N := 64.
Definition C_SFS : N := 24.
Definition C_SFB : N := 256.
Definition C_0 : N := 65536.
Definition SLACK : N := 1048576.

(* ---- NetFlow v9 / IPFIX -------------------------------------------------------------------------- *)
Definition tmpl_width (t : tmpl) : N :=
  match t with
  | TplData r => lenN (tFields r)
  | TplOptV9 r | TplOptIPFIX r => lenN (oScopes r) + lenN (oOpts r)
  end.

(* one flow set at the head of d: (cost, width of the template it is cut with) *)
Definition gh_set (st : store) (dom ver : N) (d : bytes) : N * N :=
  match rd 2 d with
  | Ok (id, d1) =>
      match rd 2 d1 with
      | Ok (len, d2) =>
          if len <? 4 then (0, 0) else
          let body := fst (next (N.to_nat (len - 4)) d2) in
          if ((id =? 0) && (ver =? 9)) || ((id =? 1) && (ver =? 9)) || ((id =? 2) && (ver =? 10)) || ((id =? 3) && (ver =? 10))
          then (C_SET + C_TB * lenN body, 0)
          else if 256 <=? id then
            match store_get st (tkey ver dom id) with
            | None => (C_SET, 0)
            | Some t => (C_SET + lenN body * (C_REC + C_FLD * tmpl_width t), tmpl_width t)
            end
          else (0, 0)
      | _ => (0, 0)
      end
  | _ => (0, 0)
  end.

(* along DecodeMessageCommon: same loop condition, same continuation (store and remaining bytes after each
   set come from the decoder model itself); the set at which decoding fails is charged T_ERR on top *)
Fixpoint gh_common (fuel : nat) (st : store) (dom size ver : N) (start : nat) (i : N) (d : bytes) : N * N :=
  match fuel with
  | O => (0, 0)
  | S fu =>
      let read := N.of_nat (start - length d) mod 65536 in
      if (((i <? size) && (ver =? 9)) || ((read <? size) && (ver =? 10))) && negb (Nat.eqb (length d) 0) then
        let (c, w) := gh_set st dom ver d in
        match dec_flowset st dom ver d with
        | Ok (_, _, st1, d1) =>
            let (c', w') := gh_common fu st1 dom size ver start (i + 1) d1 in (c + c', N.max w w')
        | _ => (c + T_ERR, w)
        end
      else (0, 0)
  end.

Definition gh_nf_body (st : store) (ver : N) (d : bytes) : N * N :=
  match rd_fields (if ver =? 9 then v9_hdr_ws else ipfix_hdr_ws) d with
  | Ok (h, d1) => gh_common (S (length d1)) st (nf_dom ver h) (nf_size ver h) ver (length d1) 0 d1
  | _ => (0, 0)
  end.

(* ---- NetFlow v5: the record slice is pre-sized from the header's count, then one message per record
   physically present -------------------------------------------------------------------------------- *)
Definition gh_v5_body (d : bytes) : N * N :=
  ((match rd 2 d with Ok (c, _) => C_V5S * c | _ => 0 end) + C_REC * (lenN d / 48), 0).

(* ---- sFlow: the pre-sized sample and record slots (they are part of the decoded value: unused slots stay
   as nil entries), plus a cost per byte; a datagram that fails to decode is charged the most any datagram
   of its length can pre-size ------------------------------------------------------------------------ *)
Definition gh_slots (p : spkt) : nat :=
  (length (kSamples p) + fold_right (fun s a => length (sRecs s) + a) 0 (kSamples p))%nat.
Definition gh_sf (d : bytes) : N * N :=
  ((match decode_sf d with
    | Ok p => C_SFS * N.of_nat (gh_slots p)
    | _ => C_SFS * (1000 + 1000 * (lenN d / 20))
    end) + C_SFB * lenN d, 0).

(* ---- the three pipes (same dispatch as Model/Pipe.v) ---------------------------------------------- *)
Definition gh_nf (st : pstate) (e : exporter) (d : bytes) : N * N :=
  match rd 2 d with
  | Ok (ver, d0) =>
      if ver =? 5 then gh_v5_body d0
      else if (ver =? 9) || (ver =? 10) then gh_nf_body (tstores_get (psT st) (exp_id e)) ver d0
      else (0, 0)
  | _ => (0, 0)
  end.

Definition gh_flow (st : pstate) (e : exporter) (d : bytes) : N * N :=
  match rd 4 d with
  | Ok (proto, _) =>
      if proto =? 5 then gh_sf d
      else let v := proto / 65536 in
           if (v =? 5) || (v =? 9) || (v =? 10) then gh_nf st e d else (0, 0)
  | _ => (0, 0)
  end.

Definition gh_pipe (k : pipekind) (st : pstate) (e : exporter) (d : bytes) : N * N :=
  let (c, w) := match k with PKNetFlow => gh_nf st e d | PKSFlow => gh_sf d | PKFlow => gh_flow st e d end in
  (C_0 + c, w).

(* the budget of the property, and the part of it the theorem leaves to SLACK *)
Definition budget (len w : N) : N := 16 * 1048576 + 256 * len * (1 + w).
Definition budget_model (len w : N) : N := 15 * 1048576 + 256 * len * (1 + w).

(* a history through one pipe: per datagram, the estimate made in the state the datagram meets *)
Local Open Scope string_scope.
Fixpoint gh_run (k : pipekind) (cfg : ProdNF.prodcfg) (st : pstate) (h : list (exporter * N * bytes)) : list tok :=
  match h with
  | [] => []
  | (e, tr, d) :: r =>
      let (c, w) := gh_pipe k st e d in
      TN c :: TN (lenN d) :: TN w :: TS "|" :: gh_run k cfg (step_state st (pipe_step k cfg st e tr d)) r
  end.
