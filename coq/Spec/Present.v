(* C07 -- the number of complete data records PHYSICALLY PRESENT in a NetFlow v9 / IPFIX datagram, counted from the
   bytes alone: for every data set whose template is known, the bytes its length word covers (clipped to what was
   received) divided by the least number of bytes one record of that template occupies.  Templates, options
   templates, options data and sets of unknown templates count nothing.  The count walks the datagram as the decoder
   does (the template store changes while the sets of a message are read). *)
From Coq Require Import NArith List Bool Arith.
From GF Require Import Base.Res Base.Bytes Base.Layout Model.NF.
Import ListNotations.
Open Scope N_scope.

Definition present_set (st : store) (dom ver : N) (d : bytes) : nat :=
  match rd 2 d with
  | Ok (id, d1) =>
      match rd 2 d1 with
      | Ok (len, d2) =>
          if len <? 4 then O else
          let body := fst (next (N.to_nat (len - 4)) d2) in
          if ((id =? 0) && (ver =? 9)) || ((id =? 1) && (ver =? 9)) || ((id =? 2) && (ver =? 10)) || ((id =? 3) && (ver =? 10))
          then O
          else if 256 <=? id then
            match store_get st (tkey ver dom id) with
            | Some (TplData r) => (length body / template_size (tFields r))%nat     (* x / 0 = 0 *)
            | _ => O
            end
          else O
      | _ => O
      end
  | _ => O
  end.

Fixpoint present_common (fuel : nat) (st : store) (dom size ver : N) (start : nat) (i : N) (d : bytes) : nat :=
  match fuel with
  | O => O
  | S fu =>
      let read := N.of_nat (start - length d) mod 65536 in
      if (((i <? size) && (ver =? 9)) || ((read <? size) && (ver =? 10))) && negb (Nat.eqb (length d) 0) then
        (present_set st dom ver d +
         match dec_flowset st dom ver d with
         | Ok (_, _, st1, d1) => present_common fu st1 dom size ver start (i + 1) d1
         | _ => O
         end)%nat
      else O
  end.

Definition present_nf_body (st : store) (ver : N) (d : bytes) : nat :=
  match rd_fields (if ver =? 9 then v9_hdr_ws else ipfix_hdr_ws) d with
  | Ok (h, d1) => present_common (S (length d1)) st (nf_dom ver h) (nf_size ver h) ver (length d1) 0 d1
  | _ => O
  end.
