(* Generators of abstract NetFlow v9 / IPFIX messages and histories (testing machinery). *)
From Coq Require Import String NArith List Bool.
From GF Require Import Base.Res Base.Bytes Base.Layout Base.Gen Model.NF Spec.EncNF.
Import ListNotations.
Open Scope N_scope.

(* what the exporter has announced so far, latest first *)
Inductive ctxe := CData (id : N) (fs : list afield) | COpt (id : N) (sc op : list afield).
Definition ctx := list ctxe.
Definition ctx_id (e : ctxe) : N := match e with CData i _ => i | COpt i _ _ => i end.
Fixpoint ctx_get (c : ctx) (id : N) : option ctxe :=
  match c with [] => None | e :: r => if ctx_id e =? id then Some e else ctx_get r id end.

Definition doc_ids : list N :=
  [1;2;4;5;6;7;8;10;11;12;14;15;16;17;18;21;22;27;28;56;57;58;61;70;80;81;89;136;150;152;153;305;34;50;315].

Definition gen_afield (ver : N) : Gen afield :=
  gdo e <- grand 5;
  gdo k <- grand 3;
  gdo id <- (if k =? 0 then grange 1 500 else gpick 1 doc_ids);
  gdo lc <- grand 12;
  gdo ln <- (match lc with
             | 0 => gret 0 | 1 => gret 1 | 2 => gret 2 | 3 | 4 => gret 4 | 5 => gret 8 | 6 => gret 16
             | 7 => gret 6 | 8 => grange 1 64
             | 9 => if ver =? 10 then gret 65535 else gret 3
             | _ => gret 4 end);
  gdo pk <- grand 3;
  gdo pen0 <- gval 32;
  let pen := if pk =? 0 then 9 else if pk =? 1 then 29305 else pen0 in
  let ent := (ver =? 10) && (e =? 0) in
  gret {| aEnt := ent; aId := id; aLen := ln; aPen := if ent then pen else 0 |}.

Definition gen_afields (ver : N) (lo hi : N) : Gen (list afield) :=
  gdo n <- grange lo hi; glist (N.to_nat n) (gen_afield ver).

Definition gen_value (f : afield) : Gen bytes :=
  if aLen f =? 65535 then
    gdo c <- grand 10;
    gdo n <- (match c with 0 => gret 0 | 1 => gret 254 | 2 => gret 255 | 3 => gret 300 | 4 => gret 1
                      | _ => grange 0 40 end);
    gbytes (N.to_nat n)
  else
    (* mostly arbitrary bytes; sometimes all zero, sometimes all ones *)
    gdo c <- grand 12;
    match c with
    | 0 => gret (repeat 0 (N.to_nat (aLen f)))
    | 1 => gret (repeat 255 (N.to_nat (aLen f)))
    | _ => gbytes (N.to_nat (aLen f))
    end.

Fixpoint gen_values (fs : list afield) : Gen (list bytes) :=
  match fs with
  | [] => gret []
  | f :: r => gdo v <- gen_value f; gdo vs <- gen_values r; gret (v :: vs)
  end.

(* a whole record: one in ten is all zero (every fixed field zero, every variable-length field empty) *)
Definition zero_value (f : afield) : bytes := if aLen f =? 65535 then [] else repeat 0 (N.to_nat (aLen f)).
Definition gen_rec_values (fs : list afield) : Gen (list bytes) :=
  gdo c <- grand 10;
  if c =? 0 then gret (map zero_value fs) else gen_values fs.

Definition min_size (ver : N) (fs : list afield) : nat := afields_size (ver =? 10) fs.

(* number of records so that the set stays small *)
Definition gen_nrec (sz : nat) : Gen N :=
  gdo c <- grand 8;
  let cap := N.max 1 (1500 / (N.of_nat sz + 8)) in
  match c with
  | 0 => gret 0
  | 1 => gret 1
  | 2 => gret (N.min 60 cap)
  | _ => grange 1 (N.min 12 cap)
  end.

Definition gen_pad (sz : nat) : Gen nat :=
  gdo p <- grand 4; gret (Nat.min (N.to_nat p) (sz - 1)).

Definition fresh_fields (ver : N) : Gen (list afield) :=
  gdo big <- grand 10;
  gdo fs <- (if big =? 0 then gen_afields ver 20 40 else gen_afields ver 1 8);
  (* make sure a record occupies at least one byte *)
  if Nat.eqb (min_size ver fs) 0 then gret ({| aEnt := false; aId := 1; aLen := 4; aPen := 0 |} :: fs) else gret fs.

Definition gen_tid : Gen N := grange 256 261.

Definition data_of_ctx (c : ctx) : list ctxe :=
  filter (fun e => match e with CData _ _ => true | _ => false end) c.
Definition opt_of_ctx (c : ctx) : list ctxe :=
  filter (fun e => match e with COpt _ _ _ => true | _ => false end) c.

(* only templates still visible (not shadowed by a later announcement of the same id) *)
Definition visible (c : ctx) (e : ctxe) : bool :=
  match ctx_get c (ctx_id e), e with
  | Some (CData i fs), CData j gs => (i =? j) && (lenN fs =? lenN gs) && Nat.eqb (length fs) (length gs)
  | Some (COpt i a b), COpt j a' b' => (i =? j) && (lenN a =? lenN a') && (lenN b =? lenN b')
  | _, _ => false
  end.

(* a template announcement: a fresh one, or -- one time in three -- a REFRESH of a template seen before under the same id:
   the same element types with other lengths, the same fields in another order, or an identical copy *)
Definition relen (f : afield) : afield :=
  let l := aLen f in
  let l' := if (l =? 1) || (l =? 2) || (l =? 4) then l * 2 else if l =? 8 then 4 else l in
  {| aEnt := aEnt f; aId := aId f; aLen := l'; aPen := aPen f |}.
Definition gen_tmpl (ver : N) (ds : list ctxe) : Gen (N * list afield) :=
  gdo v <- grand 3;
  match v, ds with
  | 0, e0 :: _ =>
      gdo e <- gpick e0 ds;
      match e with
      | CData id fs => gdo w <- grand 3; gret (id, match w with 0 => map relen fs | 1 => rev fs | _ => fs end)
      | _ => gdo id <- gen_tid; gdo fs <- fresh_fields ver; gret (id, fs)
      end
  | _, _ => gdo id <- gen_tid; gdo fs <- fresh_fields ver; gret (id, fs)
  end.

Definition gen_set (ver : N) (c : ctx) : Gen (aset * ctx) :=
  gdo k <- grand 10;
  let ds := data_of_ctx c in
  let os := opt_of_ctx c in
  match k with
  | 0 | 1 =>
      gdo n <- grange 1 3;
      gdo ts <- glist (N.to_nat n) (gen_tmpl ver ds);
      gret (ATmpl ts, fold_left (fun cc t => CData (fst t) (snd t) :: cc) ts c)
  | 2 =>
      gdo n <- grange 1 2;
      gdo ts <- glist (N.to_nat n)
                 (gdo id <- gen_tid; gdo sc <- gen_afields ver 0 2; gdo op <- fresh_fields ver;
                  gret (id, (sc, op)));
      gret (AOptTmpl ts, fold_left (fun cc t => COpt (fst t) (fst (snd t)) (snd (snd t)) :: cc) ts c)
  | 3 =>
      match os with
      | [] => gret (ATmpl [], c)
      | e0 :: _ =>
          gdo e <- gpick e0 os;
          match ctx_get c (ctx_id e) with
          | Some (COpt id sc op) =>
              let sz := (min_size ver sc + min_size ver op)%nat in
              gdo n <- gen_nrec sz;
              gdo recs <- glist (N.to_nat n) (gdo a <- gen_rec_values sc; gdo b <- gen_rec_values op; gret (a, b));
              gdo pad <- gen_pad sz;
              gret (AOptData id sc op recs pad, c)
          | _ => gret (ATmpl [], c)
          end
      end
  | _ =>
      match ds with
      | [] =>
          gdo id <- gen_tid; gdo fs <- fresh_fields ver;
          gret (ATmpl [(id, fs)], CData id fs :: c)
      | e0 :: _ =>
          gdo e <- gpick e0 ds;
          match ctx_get c (ctx_id e) with
          | Some (CData id fs) =>
              let sz := min_size ver fs in
              gdo n <- gen_nrec sz;
              gdo recs <- glist (N.to_nat n) (gen_rec_values fs);
              gdo pad <- gen_pad sz;
              gret (AData id fs recs pad, c)
          | _ => gret (ATmpl [], c)
          end
      end
  end.

Fixpoint gen_sets (n : nat) (ver : N) (c : ctx) : Gen (list aset * ctx) :=
  match n with
  | O => gret ([], c)
  | S k => gdo sc <- gen_set ver c; gdo r <- gen_sets k ver (snd sc); gret (fst sc :: fst r, snd r)
  end.

Definition gen_msg (ver dom : N) (c : ctx) : Gen (amsg * ctx) :=
  gdo n <- grange 1 8;
  gdo sc <- gen_sets (N.to_nat n) ver c;
  gdo a <- gval 32; gdo b <- gval 32; gdo s <- gval 32;
  let hdr := if ver =? 9 then [a; b; s; dom] else [b; s; dom] in
  gret ({| aVer := ver; aHdr := hdr; aSets := fst sc |}, snd sc).

Fixpoint gen_hist (n : nat) (ver dom : N) (c : ctx) : Gen (list amsg) :=
  match n with
  | O => gret []
  | S k => gdo mc <- gen_msg ver dom c; gdo r <- gen_hist k ver dom (snd mc); gret (fst mc :: r)
  end.

Definition gen_nf_case : Gen (list amsg) :=
  gdo v <- grand 2;
  gdo n <- grange 1 3;
  gdo dom <- gval 32;
  gen_hist (N.to_nat n) (if v =? 0 then 9 else 10) dom [].

(* v9 messages whose record count (RFC 3954 Count) is below their number of flow sets:
   a template message, then [empty data set; data set with k records] *)
Definition gen_v9_lowcount : Gen (list amsg) :=
  gdo dom <- gval 32;
  gdo fs <- fresh_fields 9;
  gdo a <- gval 32; gdo b <- gval 32; gdo s <- gval 32;
  gdo recs <- glist 1 (gen_values fs);
  let m1 := {| aVer := 9; aHdr := [a; b; s; dom]; aSets := [ATmpl [(256, fs)]] |} in
  let m2 := {| aVer := 9; aHdr := [a; b; s + 1; dom]; aSets := [AData 256 fs [] 0; AData 256 fs recs 0] |} in
  gret [m1; m2].
