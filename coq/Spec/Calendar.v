(* The proleptic Gregorian calendar, written the obvious way: days from 1970-01-01 to a given year / month / day by
   counting (365 per year, leap days by the 4 / 100 / 400 rule, cumulative month lengths), and a parser of the
   RFC 3339 text form.  Independent of Model/Format.v civil (which computes the date FROM the day number). *)
From Coq Require Import String NArith List Bool.
From GF Require Import Base.Res Base.Bytes.
Import ListNotations.
Open Scope N_scope.

Definition leap (y : N) : bool := ((y mod 4 =? 0) && negb (y mod 100 =? 0)) || (y mod 400 =? 0).
(* days in the years 1 .. y-1 *)
Definition days_before_year (y : N) : N := let y1 := y - 1 in 365 * y1 + y1 / 4 - y1 / 100 + y1 / 400.
Definition cum_days : list N := [0; 31; 59; 90; 120; 151; 181; 212; 243; 273; 304; 334].
Definition days_of_civil (y m d : N) : N :=
  days_before_year y + nth (N.to_nat (m - 1)) cum_days 0 + (if leap y && (2 <? m) then 1 else 0) + (d - 1)
  - days_before_year 1970.
Definition mdays (y m : N) : N :=
  if m =? 2 then (if leap y then 29 else 28) else if (m =? 4) || (m =? 6) || (m =? 9) || (m =? 11) then 30 else 31.

(* ---- reading "YYYY-MM-DDTHH:MM:SS[.fraction]Z" ---- *)
Definition dig (c : N) : option N := if (48 <=? c) && (c <=? 57) then Some (c - 48) else None.
Fixpoint digits (l : bytes) (acc : N) : option N :=
  match l with
  | [] => Some acc
  | c :: r => match dig c with Some v => digits r (acc * 10 + v) | None => None end
  end.
(* the fraction of a second: up to nine digits, read as nanoseconds *)
Definition frac_ns (l : bytes) : option N :=
  if Nat.ltb 9 (length l) then None else
  match digits l 0 with Some v => Some (v * 10 ^ (9 - N.of_nat (length l))) | None => None end.

Definition parse_ts (s : bytes) : option (N * N) :=
  match s with
  | y1 :: y2 :: y3 :: y4 :: 45 :: m1 :: m2 :: 45 :: d1 :: d2 :: 84 :: h1 :: h2 :: 58 :: i1 :: i2 :: 58 :: s1 :: s2 :: rest =>
      match digits [y1; y2; y3; y4] 0, digits [m1; m2] 0, digits [d1; d2] 0, digits [h1; h2] 0, digits [i1; i2] 0, digits [s1; s2] 0 with
      | Some y, Some m, Some d, Some h, Some i, Some sec =>
          if (1 <=? m) && (m <=? 12) && (1 <=? d) && (d <=? mdays y m) && (h <? 24) && (i <? 60) && (sec <? 60) then
            let t := days_of_civil y m d * 86400 + h * 3600 + i * 60 + sec in
            match rest with
            | [90] => Some (t, 0)
            | 46 :: fr =>
                match rev fr with
                | 90 :: rf => match frac_ns (rev rf) with Some ns => if ns =? 0 then None else Some (t, ns) | None => None end
                | _ => None
                end
            | _ => None
            end
          else None
      | _, _, _, _, _, _ => None
      end
  | _ => None
  end.
