(* Layered model of a sampled frame (C10): encoder, the message the property describes for a
   complete capture, and generators. *)
From Coq Require Import String NArith List Bool.
From GF Require Import Base.Res Base.Bytes Base.Gen Model.Msg Model.Packet.
Import ListNotations.
Open Scope N_scope.

Inductive l4 :=
| L4TCP (sp dp flags ow : N) (* ow: number of 32-bit option words, 0..10 *) | L4UDP (sp dp : N) | L4ICMP (ty code : N) | L4ICMP6 (ty code : N)
| L4Other (proto : N) (payload : bytes).

Record ip4 := { i4Tos : N; i4Ttl : N; i4Id : N; i4Off : N; i4Flags : N; i4Src : bytes; i4Dst : bytes }.
(* fragment header: offset(13) flags(3, low bit = M) id(32); routing header type 4: segments left,
   last entry, segment list *)
Record ip6 := { i6Tc : N; i6Flow : N; i6Hop : N; i6Src : bytes; i6Dst : bytes;
                i6Srh : option (N * list bytes); i6Frag : option (N * N * N) }.
Inductive l3 := L3v4 (h : ip4) | L3v6 (h : ip6).
Inductive tunnel := TNone | TGRE | TGREEth | TIPIP.

Record frame := { fDst : N; fSrc : N; fVlans : list N; fMpls : list (N * N); fOuter : l3;
                  fTun : tunnel; fInner : l3; fL4 : l4; fTail : bytes }.

Definition l4_proto (x : l4) : N :=
  match x with L4TCP _ _ _ _ => 6 | L4UDP _ _ => 17 | L4ICMP _ _ => 1 | L4ICMP6 _ _ => 58 | L4Other p _ => p end.
Definition enc_l4 (x : l4) : bytes :=
  match x with
  | L4TCP sp dp fl ow =>
      (* data offset 5 + ow words; the options are ow words of no-operation octets *)
      enc_be 2 sp ++ enc_be 2 dp ++ enc_be 4 7 ++ enc_be 4 9 ++ [16 * (5 + ow); fl] ++ enc_be 2 1024 ++ enc_be 2 0 ++ enc_be 2 0
        ++ repeat 1 (N.to_nat (4 * ow))
  | L4UDP sp dp => enc_be 2 sp ++ enc_be 2 dp ++ enc_be 2 8 ++ enc_be 2 0
  | L4ICMP t c | L4ICMP6 t c => [t; c] ++ enc_be 2 0 ++ enc_be 4 1
  | L4Other _ p => p
  end.
Definition l4_layer (x : l4) : list (parser * N) :=
  match x with
  | L4TCP _ _ _ ow => [(PTCP, 20 + 4 * ow)] | L4UDP _ _ => [(PUDP, 8)] | L4ICMP _ _ => [(PICMP, 8)]
  | L4ICMP6 _ _ => [(PICMPv6, 8)] | L4Other _ _ => []
  end.

Definition l3_etype (x : l3) : N := match x with L3v4 _ => 2048 | L3v6 _ => 34525 end.
Definition l3_ipproto (x : l3) : N := match x with L3v4 _ => 4 | L3v6 _ => 41 end.

Definition enc_srh (next : N) (s : N * list bytes) : bytes :=
  let '(segleft, segs) := s in
  [next; 2 * lenN segs; 4; segleft; (lenN segs + 255) mod 256; 0; 0; 0] ++ concat segs.
Definition enc_frag (next : N) (f : N * N * N) : bytes :=
  let '(off, fl, id) := f in [next; 0] ++ enc_be 2 (off * 8 + fl) ++ enc_be 4 id.

(* first next-header value of an IPv6 header and the encoded extension chain *)
Definition v6_chain (h : ip6) (next : N) : N * bytes :=
  match i6Srh h, i6Frag h with
  | None, None => (next, [])
  | Some s, None => (43, enc_srh next s)
  | None, Some f => (44, enc_frag next f)
  | Some s, Some f => (43, enc_srh 44 s ++ enc_frag next f)
  end.

Definition enc_l3 (x : l3) (next : N) (payload : bytes) : bytes :=
  match x with
  | L3v4 h =>
      [69; i4Tos h] ++ enc_be 2 (20 + lenN payload) ++ enc_be 2 (i4Id h) ++ enc_be 2 (i4Flags h * 8192 + i4Off h)
        ++ [i4Ttl h; next] ++ enc_be 2 0 ++ i4Src h ++ i4Dst h ++ payload
  | L3v6 h =>
      let '(nh, ext) := v6_chain h next in
      enc_be 4 (6 * 268435456 + i6Tc h * 1048576 + i6Flow h) ++ enc_be 2 (lenN ext + lenN payload)
        ++ [nh; i6Hop h] ++ i6Src h ++ i6Dst h ++ ext ++ payload
  end.

Definition enc_mpls (ls : list (N * N)) : bytes :=
  let n := length ls in
  concat (map (fun il => let '(i, (l, ttl)) := il in
                         enc_be 4 (l * 4096 + (if Nat.eqb (S i) n then 256 else 0) + ttl))
              (combine (seq 0 n) ls)).

Definition encode_frame (f : frame) : bytes :=
  let l4b := enc_l4 (fL4 f) ++ fTail f in
  let l4p := l4_proto (fL4 f) in
  let ipbytes :=
    match fTun f with
    | TNone => enc_l3 (fOuter f) l4p l4b
    | TGRE => enc_l3 (fOuter f) 47 ([0; 0] ++ enc_be 2 (l3_etype (fInner f)) ++ enc_l3 (fInner f) l4p l4b)
    | TGREEth => enc_l3 (fOuter f) 47 ([0; 0] ++ enc_be 2 25944 ++ enc_be 6 1 ++ enc_be 6 2 ++
                                        enc_be 2 (l3_etype (fInner f)) ++ enc_l3 (fInner f) l4p l4b)
    | TIPIP => enc_l3 (fOuter f) (l3_ipproto (fInner f)) (enc_l3 (fInner f) l4p l4b)
    end in
  let after_vlan :=
    match fMpls f with
    | [] => enc_be 2 (l3_etype (fOuter f)) ++ ipbytes
    | ls => enc_be 2 34887 ++ enc_mpls ls ++ ipbytes
    end in
  enc_be 6 (fDst f) ++ enc_be 6 (fSrc f) ++
  concat (map (fun v => enc_be 2 33024 ++ enc_be 2 v) (fVlans f)) ++ after_vlan.

(* ---- the message the property describes for the complete frame ---- *)
Definition l3_layers (x : l3) : list (parser * N) :=
  match x with
  | L3v4 _ => [(PIPv4, 20)]
  | L3v6 h => (PIPv6, 40) ::
              match i6Srh h with Some (_, segs) => [(PV6Route, 8 + 16 * lenN segs)] | None => [] end ++
              match i6Frag h with Some _ => [(PV6Frag, 8)] | None => [] end
  end.

Definition set_l3 (m : msg) (x : l3) (next : N) : msg :=
  match x with
  | L3v4 h =>
      msetI (msetI (msetI (msetI (msetI (msetI (msetB (msetB m cSrcAddr (i4Src h)) cDstAddr (i4Dst h))
        cIpTos (i4Tos h)) cIpTtl (i4Ttl h)) cFragId (i4Id h)) cFragOff (i4Off h)) cIpFlags (i4Flags h)) cProto next
  | L3v6 h =>
      let m1 := msetI (msetI (msetI (msetI (msetB (msetB m cSrcAddr (i6Src h)) cDstAddr (i6Dst h))
        cIpTos (i6Tc h)) cIpTtl (i6Hop h)) cFlowLabel (i6Flow h)) cProto (fst (v6_chain h next)) in
      let m2 := match i6Srh h with
                | Some (sl, segs) => mset (msetI m1 cRhSegLeft sl) cRhAddrs (VLB segs)
                | None => m1 end in
      match i6Frag h with
      | Some (off, fl, id) => msetI (msetI (msetI m2 cFragId id) cFragOff off) cIpFlags fl
      | None => m2 end
  end.

Definition set_l4 (m : msg) (x : l4) : msg :=
  match x with
  | L4TCP sp dp fl _ => msetI (msetI (msetI m cSrcPort sp) cDstPort dp) cTcpFlags fl
  | L4UDP sp dp => msetI (msetI m cSrcPort sp) cDstPort dp
  | L4ICMP t c | L4ICMP6 t c => msetI (msetI m cIcmpType t) cIcmpCode c
  | L4Other _ _ => m
  end.

Definition frame_layers (f : frame) : list (parser * N) :=
  [(PEthernet, 14)] ++ map (fun _ => (PDot1Q, 4)) (fVlans f) ++
  (match fMpls f with [] => [] | ls => [(PMPLS, 4 * lenN ls)] end) ++
  l3_layers (fOuter f) ++
  match fTun f with
  | TNone => l4_layer (fL4 f)
  | TGRE => (PGRE, 4) :: l3_layers (fInner f) ++ l4_layer (fL4 f)
  | TGREEth => (PGRE, 4) :: (PEthernet, 14) :: l3_layers (fInner f) ++ l4_layer (fL4 f)
  | TIPIP => l3_layers (fInner f) ++ l4_layer (fL4 f)
  end.

Definition ref_frame (f : frame) : msg :=
  let m := msetI (msetI (msetI empty_msg cSrcMac (fSrc f)) cDstMac (fDst f)) cEtype (l3_etype (fOuter f)) in
  let m := match rev (fVlans f) with v :: _ => msetI m cVlanId v | [] => m end in
  let m := match fMpls f with
           | [] => m
           | ls => mset (mset m cMplsLabel (VLI (map fst ls))) cMplsTtl (VLI (map snd ls))
           end in
  let outer_next := match fTun f with
                    | TNone => l4_proto (fL4 f) | TGRE | TGREEth => 47 | TIPIP => l3_ipproto (fInner f) end in
  let m := set_l3 m (fOuter f) outer_next in
  let m := match fTun f with TNone => set_l4 m (fL4 f) | _ => m end in
  let ls := frame_layers f in
  mset (mset m cLayerStack (VLI (map (fun x => layer_code (fst x)) ls))) cLayerSize (VLI (map snd ls)).

(* ---- generators ---- *)
Definition gen_ip4 : Gen ip4 :=
  gdo tos <- gval 8; gdo ttl <- gval 8; gdo id <- gval 16; gdo off <- gval 13; gdo fl <- gval 3;
  gdo s <- gbytes 4; gdo d <- gbytes 4;
  gret {| i4Tos := tos; i4Ttl := ttl; i4Id := id; i4Off := off; i4Flags := fl; i4Src := s; i4Dst := d |}.
Definition gen_ip6 : Gen ip6 :=
  gdo tc <- gval 8; gdo fl <- gval 20; gdo hop <- gval 8; gdo s <- gbytes 16; gdo d <- gbytes 16;
  gdo hs <- grand 4; gdo hf <- grand 4;
  gdo nseg <- grange 0 4; gdo segs <- glist (N.to_nat nseg) (gbytes 16); gdo sl <- gval 8;
  gdo off <- gval 13; gdo ffl <- gval 3; gdo id <- gval 32;
  gret {| i6Tc := tc; i6Flow := fl; i6Hop := hop; i6Src := s; i6Dst := d;
          i6Srh := if hs =? 0 then Some (sl, segs) else None;
          i6Frag := if hf =? 0 then Some (off, ffl, id) else None |}.
Definition gen_l3 : Gen l3 :=
  gdo six <- gbool; if six then gdo h <- gen_ip6; gret (L3v6 h) else gdo h <- gen_ip4; gret (L3v4 h).
Definition gen_l4 : Gen l4 :=
  gdo k <- grand 6;
  match k with
  | 0 | 1 => gdo sp <- gval 16; gdo dp <- gval 16; gdo fl <- gval 8;
             gdo ho <- gbool; gdo ow <- grange 0 10; gret (L4TCP sp dp fl (if ho then ow else 0))
  | 2 => gdo sp <- gval 16; gdo dp <- gval 16; gret (L4UDP sp dp)
  | 3 => gdo t <- gval 8; gdo c <- gval 8; gret (L4ICMP t c)
  | 4 => gdo t <- gval 8; gdo c <- gval 8; gret (L4ICMP6 t c)
  | _ => gdo p <- gpick 89 [89; 50; 132; 2; 0; 255]; gdo n <- grange 0 12; gdo b <- gbytes (N.to_nat n);
         gret (L4Other p b)
  end.
Definition gen_frame : Gen frame :=
  gdo d <- gval 48; gdo s <- gval 48;
  gdo nv <- grand 3;
  (* the property quantifies over tags whose priority and DEI bits are 0: the tag control word is the 12-bit VLAN id *)
  gdo vl <- glist (N.to_nat nv) (gval 12);
  gdo hm <- grand 3; gdo nm <- grange 1 4;
  gdo ml <- glist (if hm =? 0 then N.to_nat nm else O) (gdo l <- grange 16 1048575; gdo t <- gval 8; gret (l, t));
  gdo o <- gen_l3; gdo i <- gen_l3;
  gdo tk <- grand 8;
  gdo x <- gen_l4;
  gdo nt <- grange 0 10; gdo tail <- gbytes (N.to_nat nt);
  gret {| fDst := d; fSrc := s; fVlans := vl; fMpls := ml; fOuter := o;
          fTun := match tk with 0 => TGRE | 1 => TIPIP | 2 => TGREEth | _ => TNone end;
          fInner := i; fL4 := x; fTail := tail |}.
