(* Reading an address back from its text form (specification side; the implementation prints, it never parses
   its own output): dotted decimal, colon-separated hex groups with at most one "::", and "::ffff:a.b.c.d". *)
From Coq Require Import NArith List Bool.
From GF Require Import Base.Res Base.Bytes.
Import ListNotations.
Open Scope N_scope.

(* split at every occurrence of the separator byte: "a.b" -> ["a";"b"], "" -> [""] *)
Fixpoint split_on (sep : N) (s : bytes) : list bytes :=
  match s with
  | [] => [[]]
  | c :: r => if c =? sep then [] :: split_on sep r
              else match split_on sep r with
                   | w :: ws => (c :: w) :: ws
                   | [] => [[c]]
                   end
  end.

Definition dec_val (s : bytes) : N := fold_left (fun acc c => acc * 10 + (c - 48)) s 0.
Definition hex_digit (c : N) : N := if c <? 58 then c - 48 else c - 87.
Definition hex_val (s : bytes) : N := fold_left (fun acc c => acc * 16 + hex_digit c) s 0.

(* the first "::" : what stands before it and behind it *)
Fixpoint split2 (s : bytes) : option (bytes * bytes) :=
  match s with
  | [] => None
  | c :: r =>
      if (c =? 58) && (match r with d :: _ => d =? 58 | [] => false end) then Some ([], tl r)
      else match split2 r with Some (a, b) => Some (c :: a, b) | None => None end
  end.

Definition parse_groups (s : bytes) : list N := match s with [] => [] | _ => map hex_val (split_on 58 s) end.
Definition ungroups (gs : list N) : bytes := flat_map (fun g => [g / 256; g mod 256]) gs.

Definition parse_ip4 (s : bytes) : bytes := map dec_val (split_on 46 s).
Definition parse_ip6 (s : bytes) : bytes :=
  match split2 s with
  | None => ungroups (parse_groups s)
  | Some (a, b) =>
      let l := parse_groups a in let r := parse_groups b in
      ungroups (l ++ repeat 0 (8 - length l - length r) ++ r)
  end.

Definition has (c : N) (s : bytes) : bool := existsb (N.eqb c) s.
Definition parse_ip (s : bytes) : option bytes :=
  match s with
  | [] => None
  | _ => if has 58 s then
           (if has 46 s then Some (repeat 0 10 ++ [255; 255] ++ parse_ip4 (skipn 7 s)) else Some (parse_ip6 s))
         else Some (parse_ip4 s)
  end.

(* lower-case hex text of a byte string (NilRenderer on byte fields): two digits per byte *)
Fixpoint parse_hex (s : bytes) : option bytes :=
  match s with
  | [] => Some []
  | a :: b :: r => match parse_hex r with Some l => Some (hex_val [a; b] :: l) | None => None end
  | _ => None
  end.

(* "address/length" *)
Definition parse_prefix (s : bytes) : option (bytes * N) :=
  match split_on 47 s with
  | [a; b] => match parse_ip a with Some ip => Some (ip, dec_val b) | None => None end
  | _ => None
  end.
