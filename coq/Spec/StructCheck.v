(* The struct layout the model works with (Model/Cfg.v name_table: documented name, Go name, field number, kind;
   Model/Msg.v col_bits: width) IS the layout of pb/flow.pb.go type FlowMessage, regenerated from the source
   on every build (Spec/RenderTables.v struct_fields): same fields, same order, same numbers, same Go types. *)
From Coq Require Import String NArith List Bool.
From GF Require Import Base.Res Base.Bytes Model.Msg Model.Cfg Spec.RenderTables.
Import ListNotations.
Local Open Scope string_scope.

Definition gotype_of (k : ckind) (go : string) (col : N) : string :=
  match k with
  | CKScalar => if (col_bits col =? 64)%N then "uint64" else "uint32"
  | CKBytes => "[]byte"
  | CKListI => "[]uint32"
  | CKListB => "[][]byte"
  | CKEnum => if String.eqb go "LayerStack" then "[]FlowMessage_LayerStack" else "FlowMessage_FlowType"
  end.

Example name_table_is_the_struct :
  map (fun r => let '(j, g, col, k) := r in (j, g, col, gotype_of k g col)) name_table = struct_fields.
Proof. vm_compute. reflexivity. Qed.

(* every column the model shows is a field of the struct and vice versa *)
Example all_cols_are_the_struct :
  forallb (fun c => existsb (fun r => let '(_, _, n, _) := r in (n =? c)%N) struct_fields) all_cols
  && forallb (fun r => let '(_, _, n, _) := r in existsb (N.eqb n) all_cols) struct_fields = true.
Proof. vm_compute. reflexivity. Qed.
