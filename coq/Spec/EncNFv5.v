(* NetFlow v5 export format (Cisco): 24-byte header, 48-byte records, all big-endian. *)
From Coq Require Import List NArith.
From GF Require Import Base.Res Base.Bytes Base.Layout Base.Gen Model.NFv5.
Import ListNotations.
Open Scope N_scope.

Definition encode_v5_rec (r : v5rec) : bytes := enc_fields v5_rec_ws r.
Definition encode_v5 (h : list N) (rs : list v5rec) : bytes :=
  enc_be 2 5 ++ enc_fields v5_hdr_ws h ++ concat (map encode_v5_rec rs).

Definition set_count (h : list N) (c : N) : list N := c :: tl h.

Definition wf_v5_hdr (h : list N) : bool := fits v5_hdr_ws h.
Definition wf_v5_rec (r : v5rec) : bool := fits v5_rec_ws r.

(* generators *)
Definition gen_ws (ws : list nat) : Gen (list N) :=
  fold_right (fun w acc => gdo v <- gval (8 * N.of_nat w); gdo vs <- acc; gret (v :: vs)) (gret []) ws.

(* a record: one in ten is all zero *)
Definition gen_v5_rec : Gen v5rec :=
  gdo c <- grand 10; if c =? 0 then gret (map (fun _ => 0) v5_rec_ws) else gen_ws v5_rec_ws.

(* a well-formed datagram: count = number of records, 0..30 records *)
Definition gen_v5_wf : Gen (list N * list v5rec) :=
  gdo n <- grand 31;
  gdo h <- gen_ws v5_hdr_ws;
  gdo rs <- glist (N.to_nat n) gen_v5_rec;
  gret (set_count h n, rs).

(* k complete records, a partial one of p bytes, header count c >= k *)
Definition gen_v5_trunc : Gen ((list N * list v5rec) * bytes) :=
  gdo k <- grand 6;
  gdo h <- gen_ws v5_hdr_ws;
  gdo rs <- glist (N.to_nat k) gen_v5_rec;
  gdo p <- grand 48;
  gdo part <- gbytes (N.to_nat p);
  gdo sel <- grand 4;
  gdo extra <- (match sel with 0 => gret 0 | 1 => gret 1 | 2 => gret 30 | _ => gret (65535 - k) end);
  gret ((set_count h (k + extra), rs), part).
