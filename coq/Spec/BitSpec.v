(* Bit-level specification of GetBytes (docs/mapping.md: offset and length in bits). *)
From Coq Require Import String NArith ZArith List Bool.
From GF Require Import Base.Res Base.Bytes.
Import ListNotations.
Open Scope N_scope.

Definition bits_of_byte (b : N) : list N :=
  [b / 128 mod 2; b / 64 mod 2; b / 32 mod 2; b / 16 mod 2; b / 8 mod 2; b / 4 mod 2; b / 2 mod 2; b mod 2].
Definition bits_of (d : bytes) : list N := flat_map bits_of_byte d.
Definition num_of_bits (l : list N) : N := fold_left (fun a b => a * 2 + b) l 0.

(* cut a bit string into bytes; a trailing group of r < 8 bits is right-aligned (shift) or
   left-aligned / masked (no shift) *)
Fixpoint group (fuel : nat) (l : list N) (shift : bool) : bytes :=
  match fuel with
  | O => []
  | S fu =>
      match l with
      | [] => []
      | _ =>
          if Nat.leb 8 (length l) then num_of_bits (firstn 8 l) :: group fu (skipn 8 l) shift
          else [if shift then num_of_bits l else num_of_bits l * 2 ^ N.of_nat (8 - length l)]
      end
  end.

(* bits off .. off+len-1 of d (bit 0 = most significant bit of byte 0), zero beyond the end *)
Definition get_bits_spec (d : bytes) (off len : nat) (shift : bool) : bytes :=
  if Nat.ltb (8 * length d) off then [] else
  if Nat.eqb len 0 then [] else
  let all := bits_of d ++ repeat 0 (off + len) in
  group (S len) (firstn len (skipn off all)) shift.
