(* The protobuf wire grammar (varint tags, wire types 0 and 2) as a PARSER, independent of the encoder of
   Model/Pb.v, and the reading of a parsed message against the schema of pb/flow.proto: which field numbers are
   packed repeated varints.  What a consumer (protoc-generated code, cmd/enricher) sees in the bytes. *)
From Coq Require Import String NArith List Bool.
From GF Require Import Base.Res Base.Bytes Model.Msg Model.Pb Model.Cfg.
Import ListNotations.
Open Scope N_scope.

Inductive witem := WVar (num v : N) | WLen (num : N) (b : bytes).

(* one field at a time until the bytes are used up; None = malformed *)
Fixpoint parse_wire (fuel : nat) (d : bytes) : option (list witem) :=
  match fuel with
  | O => None
  | S fu =>
      match d with
      | [] => Some []
      | _ =>
          match dec_varint d with
          | None => None
          | Some (t, r) =>
              let num := t / 8 in
              if t mod 8 =? 0 then
                match dec_varint r with
                | Some (v, r') => match parse_wire fu r' with Some l => Some (WVar num v :: l) | None => None end
                | None => None
                end
              else if t mod 8 =? 2 then
                match dec_varint r with
                | Some (n, r') =>
                    if lenN r' <? n then None else
                    match parse_wire fu (skipn (N.to_nat n) r') with
                    | Some l => Some (WLen num (firstn (N.to_nat n) r') :: l)
                    | None => None
                    end
                | None => None
                end
              else None
          end
      end
  end.

(* a packed repeated varint field: the varints, back to back *)
Fixpoint dec_packed (fuel : nat) (d : bytes) : option (list N) :=
  match fuel with
  | O => None
  | S fu =>
      match d with
      | [] => Some []
      | _ => match dec_varint d with
             | Some (v, r) => match dec_packed fu r with Some l => Some (v :: l) | None => None end
             | None => None
             end
      end
  end.

(* the schema: the repeated varint fields of FlowMessage (packed on the wire) *)
Definition is_packed (k : N) : bool :=
  existsb (fun r => let '(_, _, col, kind) := r in
                    (col =? k) && match kind with CKListI => true | CKEnum => col =? 103 | _ => false end) name_table.

(* what the parsed fields say, in the tokens of Msg.show_msg: field number and value, packed fields element by element *)
Definition obs_item (i : witem) : option (list tok) :=
  match i with
  | WVar k v => Some [TN k; TN v]
  | WLen k b =>
      if is_packed k then
        match dec_packed (S (length b)) b with
        | Some l => Some (flat_map (fun x => [TN k; TN x]) l)
        | None => None
        end
      else Some [TN k; TB b]
  end.
Fixpoint obs_items (l : list witem) : option (list tok) :=
  match l with
  | [] => Some []
  | i :: r => match obs_item i, obs_items r with Some a, Some b => Some (a ++ b) | _, _ => None end
  end.

(* ---- the messages the producers build: every column holds the kind of value the schema gives it, numbers fit
   their wire width, bytes are bytes ---- *)
Definition kind_of_col (k : N) : option ckind :=
  match find (fun r => let '(_, _, col, _) := r in col =? k) name_table with
  | Some (_, _, _, kind) => Some kind
  | None => None
  end.
Definition u64 (n : N) : bool := n <? 18446744073709551616.
Definition bytes_ok (b : bytes) : bool := forallb (fun x => x <? 256) b && (lenN b <? 18446744073709551616).
Definition val_ok (k : N) (v : pval) : bool :=
  match kind_of_col k, v with
  | Some CKScalar, VI n => u64 n
  | Some CKEnum, VI n => negb (k =? 103) && u64 n
  | Some CKEnum, VLI l => (k =? 103) && forallb u64 l && (lenN (concat (map enc_varint l)) <? 18446744073709551616)
  | Some CKBytes, VB b => bytes_ok b
  | Some CKListI, VLI l => forallb u64 l && (lenN (concat (map enc_varint l)) <? 18446744073709551616)
  | Some CKListB, VLB l => forallb bytes_ok l
  | _, _ => false
  end.
Definition col_ok (m : msg) (k : N) : bool :=
  match alookup (cols m) k with Some v => val_ok k v | None => true end.
Definition unk_ok (u : ufield) : bool :=
  (0 <? uNum u) && (uNum u <? 536870912) && negb (is_packed (uNum u)) &&
  (if uVarint u then u64 (uInt u) else bytes_ok (uBytes u)).
Definition msg_ok (m : msg) : bool := forallb (col_ok m) all_cols && forallb unk_ok (unk m).
