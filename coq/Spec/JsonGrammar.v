(* RFC 8259 as inductive predicates over byte strings (UTF-8 text). *)
From Coq Require Import String NArith List Bool.
From GF Require Import Base.Res Base.Bytes.
Import ListNotations.
Open Scope N_scope.

Definition is_hex (b : N) : Prop := (48 <= b /\ b <= 57) \/ (97 <= b /\ b <= 102) \/ (65 <= b /\ b <= 70).

(* a well-formed multi-byte UTF-8 sequence (RFC 3629, table 3-7 of the Unicode standard): no overlong forms,
   no surrogates, nothing above U+10FFFF *)
Definition cb (x : N) : Prop := 128 <= x /\ x <= 191.
Inductive utf8_seq : bytes -> Prop :=
| u2 a b : 194 <= a -> a <= 223 -> cb b -> utf8_seq [a; b]
| u3 a b c : 224 <= a -> a <= 239 -> (if a =? 224 then 160 else 128) <= b -> b <= (if a =? 237 then 159 else 191) -> cb c ->
             utf8_seq [a; b; c]
| u4 a b c d : 240 <= a -> a <= 244 -> (if a =? 240 then 144 else 128) <= b -> b <= (if a =? 244 then 143 else 191) -> cb c -> cb d ->
               utf8_seq [a; b; c; d].

(* the characters between the quotes of a JSON string *)
Inductive json_chars : bytes -> Prop :=
| jc_nil : json_chars []
| jc_utf8 w r : utf8_seq w -> json_chars r -> json_chars (w ++ r)
| jc_plain b r : 32 <= b -> b < 128 -> b <> 34 -> b <> 92 -> json_chars r -> json_chars (b :: r)
| jc_esc c r : In c [34; 92; 47; 98; 102; 110; 114; 116] -> json_chars r -> json_chars (92 :: c :: r)
| jc_u a b c d r : is_hex a -> is_hex b -> is_hex c -> is_hex d -> json_chars r ->
                   json_chars (92 :: 117 :: a :: b :: c :: d :: r).

Inductive json_number : bytes -> Prop :=
| jn_zero : json_number [48]
| jn_pos d r : 49 <= d -> d <= 57 -> Forall (fun x => 48 <= x /\ x <= 57) r -> json_number (d :: r).

Inductive json_value : bytes -> Prop :=
| jv_string s : json_chars s -> json_value (34 :: s ++ [34])
| jv_number d : json_number d -> json_value d
| jv_array_empty : json_value [91; 93]
| jv_array vs : json_elements vs -> json_value (91 :: vs ++ [93])
| jv_object_empty : json_value [123; 125]
| jv_object ms : json_members ms -> json_value (123 :: ms ++ [125])
with json_elements : bytes -> Prop :=
| je_one v : json_value v -> json_elements v
| je_more v r : json_value v -> json_elements r -> json_elements (v ++ 44 :: r)
with json_members : bytes -> Prop :=
| jm_one k v : json_chars k -> json_value v -> json_members (34 :: k ++ [34; 58] ++ v)
| jm_more k v r : json_chars k -> json_value v -> json_members r ->
                  json_members ((34 :: k ++ [34; 58] ++ v) ++ 44 :: r).
