(* Generators of multi-exporter NetFlow histories for the pipe checks (C06, C07, C11, C12, C01). *)
From Coq Require Import String NArith List Bool.
From GF Require Import Base.Res Base.Bytes Base.Layout Base.Gen Model.NF Model.NFv5 Model.Pipe
     Spec.EncNF Spec.EncNFv5 Spec.GenNF.
Import ListNotations.
Open Scope N_scope.

Definition exporters : list exporter :=
  [ {| eAddr := [10;0;0;1]; ePort := 2000 |};
    {| eAddr := [10;0;0;1]; ePort := 2001 |};
    {| eAddr := [10;0;0;2]; ePort := 2000 |};
    {| eAddr := [32;1;13;184;0;0;0;0;0;0;0;0;0;0;0;1]; ePort := 2000 |};
    {| eAddr := [0;0;0;0;0;0;0;0;0;0;255;255;10;0;0;1]; ePort := 2000 |} ].
Definition domains : list N := [0; 1; 65537; 4294967295].  (* 1 and 65537 agree in their low 16 bits *)

(* scope of a template context *)
Definition scope := (N * N * N)%type. (* exporter index, version, domain *)
Definition scope_eqb (a b : scope) : bool :=
  let '(a1, a2, a3) := a in let '(b1, b2, b3) := b in (a1 =? b1) && (a2 =? b2) && (a3 =? b3).
Definition ctxs := list (scope * ctx).
Fixpoint ctxs_get (c : ctxs) (k : scope) : ctx :=
  match c with [] => [] | (k', x) :: r => if scope_eqb k' k then x else ctxs_get r k end.

(* an options template announcing a sampling element, and one data record for it *)
Definition gen_sampling (ver : N) (c : ctx) : Gen (list aset * ctx) :=
  gdo id <- gen_tid;
  gdo el <- gpick 305 [305; 50; 34];
  gdo wl <- grand 8;
  let w := if wl =? 0 then 2 else if wl =? 1 then 8 else 4 in
  gdo extra <- grand 2;
  let sc := [{| aEnt := false; aId := 1; aLen := 4; aPen := 0 |}] in
  let op := (if extra =? 0 then [] else [{| aEnt := false; aId := 36; aLen := 2; aPen := 0 |}]) ++
            [{| aEnt := false; aId := el; aLen := w; aPen := 0 |}] in
  gdo rate <- gval 32;
  gdo a <- gen_values sc;
  gdo b0 <- gen_values op;
  let b := firstn (length b0 - 1) b0 ++ [enc_be (N.to_nat w) (rate mod 2 ^ (8 * w))] in
  gret ([AOptTmpl [(id, (sc, op))]; AOptData id sc op [(a, b)] 0], COpt id sc op :: c).

(* a data set for a template nobody announced *)
Definition gen_unknown_data (ver : N) : Gen aset :=
  gdo id <- grange 270 272;
  gdo fs <- fresh_fields ver;
  gdo recs <- glist 2 (gen_values fs);
  gret (AData id fs recs 0).

Definition gen_pipe_msg (ver dom : N) (c : ctx) : Gen (amsg * ctx) :=
  gdo mc <- gen_msg ver dom c;
  gdo k <- grand 7;
  let '(m, c1) := mc in
  match k with
  | 0 => gdo sc <- gen_sampling ver c1;
         gret ({| aVer := aVer m; aHdr := aHdr m; aSets := fst sc ++ aSets m |}, snd sc)
  | 1 => gdo sc <- gen_sampling ver c1;
         gret ({| aVer := aVer m; aHdr := aHdr m; aSets := aSets m ++ fst sc |}, snd sc)
  | 2 => gdo u <- gen_unknown_data ver;
         gdo front <- gbool;
         gret ({| aVer := aVer m; aHdr := aHdr m;
                  aSets := if front then u :: aSets m else aSets m ++ [u] |}, c1)
  | 3 =>
      (* a template set that STARTS with a record of zero fields (what RFC 7011 calls a withdrawal) for an id the
         exporter uses or one nobody announced, followed IN THE SAME SET by an announcement, then data for it *)
      gdo wid <- gpick 256 [256; 257; 258; 259; 260; 261; 270; 271];
      gdo id <- gen_tid; gdo fs <- fresh_fields ver;
      gdo recs <- glist 2 (gen_values fs);
      gdo front <- gbool;
      let ws := [ATmpl [(wid, []); (id, fs)]; AData id fs recs 0] in
      gret ({| aVer := aVer m; aHdr := aHdr m; aSets := if front then ws ++ aSets m else aSets m ++ ws |},
            CData id fs :: c1)
  | _ => gret (m, c1)
  end.

Definition gen_v5_dgram : Gen bytes :=
  gdo hr <- gen_v5_wf; gret (encode_v5 (fst hr) (snd hr)).

Fixpoint gen_pipe_hist (n : nat) (cs : ctxs) : Gen (list (exporter * N * bytes)) :=
  match n with
  | O => gret []
  | S k =>
      gdo ei <- grand 5;
      gdo tr <- gval 62;
      let e := nth (N.to_nat ei) exporters {| eAddr := [10;0;0;1]; ePort := 2000 |} in
      gdo kind <- grand 12;
      if kind =? 0 then
        gdo d <- gen_v5_dgram;
        gdo r <- gen_pipe_hist k cs;
        gret ((e, tr, d) :: r)
      else
        gdo v <- grand 2;
        let ver := if v =? 0 then 9 else 10 in
        gdo dom <- gpick 0 domains;
        let sc := (ei, ver, dom) in
        gdo mc <- gen_pipe_msg ver dom (ctxs_get cs sc);
        gdo r <- gen_pipe_hist k ((sc, snd mc) :: cs);
        gret ((e, tr, encode_nf (fst mc)) :: r)
  end.

Definition gen_pipe_case : Gen (list (exporter * N * bytes)) :=
  gdo n <- grange 5 30;
  gen_pipe_hist (N.to_nat n) [].

(* C15: a sequential prologue announcing every template and sampling rate (no redefinitions), then a
   workload of data-only messages, v5 datagrams (and sFlow datagrams added by the driver) *)
Definition gen_data_only_set (ver : N) (c : ctx) : Gen aset :=
  match data_of_ctx c with
  | [] => gret (ATmpl [])
  | e0 :: _ =>
      gdo e <- gpick e0 (data_of_ctx c);
      match e with
      | CData id fs =>
          let sz := min_size ver fs in
          gdo n <- gen_nrec sz;
          gdo recs <- glist (N.to_nat n) (gen_values fs);
          gdo pad <- gen_pad sz;
          gret (AData id fs recs pad)
      | _ => gret (ATmpl [])
      end
  end.

Definition gen_prologue_msg (ver dom : N) : Gen (amsg * ctx) :=
  gdo n <- grange 1 3;
  gdo ts <- glist (N.to_nat n) (fresh_fields ver);
  let tl := combine (map (fun i => 256 + N.of_nat i) (seq 0 (N.to_nat n))) ts in
  let c := map (fun t => CData (fst t) (snd t)) tl in
  gdo sc <- gen_sampling ver [];
  (* the sampling sets use id 256..261 for the options template: move it out of the way *)
  gdo a <- gval 32; gdo b <- gval 32; gdo s <- gval 32;
  let hdr := if ver =? 9 then [a; b; s; dom] else [b; s; dom] in
  (* the announcement of a sampling rate, moved to template id 300 so that it shadows no data template *)
  let reid (x : aset) : aset :=
    match x with
    | AOptTmpl [(_, so)] => AOptTmpl [(300, so)]
    | AOptData _ sc' op' recs pad => AOptData 300 sc' op' recs pad
    | y => y
    end in
  gret ({| aVer := ver; aHdr := hdr; aSets := ATmpl tl :: map reid (fst sc) |}, c).

Fixpoint gen_workload (n : nat) (scopes : list (N * N * N * ctx)) : Gen (list (exporter * N * bytes)) :=
  match n with
  | O => gret []
  | S k =>
      gdo kind <- grand 8;
      gdo tr <- gval 40;
      gdo r <- gen_workload k scopes;
      if kind =? 0 then
        gdo d <- gen_v5_dgram;
        gret ((nth 0 exporters {| eAddr := [10;0;0;1]; ePort := 2000 |}, tr, d) :: r)
      else
        gdo si <- grand (lenN scopes);
        let '(ei, ver, dom, c) := nth (N.to_nat si) scopes (0, 9, 0, []) in
        gdo ns <- grange 1 4;
        gdo sets0 <- glist (N.to_nat ns) (gen_data_only_set ver c);
        (* now and then the exporter re-announces its templates with the same layout *)
        gdo re <- grand 6;
        let again := ATmpl (flat_map (fun e => match e with CData id fs => [(id, fs)] | _ => [] end) c) in
        let sets := if re =? 0 then again :: sets0 else sets0 in
        gdo a <- gval 32; gdo b <- gval 32; gdo s <- gval 32;
        let hdr := if ver =? 9 then [a; b; s; dom] else [b; s; dom] in
        let m := {| aVer := ver; aHdr := hdr; aSets := sets |} in
        gret ((nth (N.to_nat ei) exporters {| eAddr := [10;0;0;1]; ePort := 2000 |}, tr, encode_nf m) :: r)
  end.

Definition gen_c15_case : Gen (list (exporter * N * bytes) * list (exporter * N * bytes)) :=
  let mk ei ver dom :=
    gdo mc <- gen_prologue_msg ver dom;
    gret ((nth (N.to_nat ei) exporters {| eAddr := [10;0;0;1]; ePort := 2000 |}, 1, encode_nf (fst mc)), (ei, ver, dom, snd mc)) in
  gdo p0 <- mk 0 9 0; gdo p1 <- mk 1 10 1; gdo p2 <- mk 2 10 0; gdo p3 <- mk 3 9 4294967295;
  let ps := [p0; p1; p2; p3] in
  gdo n <- grange 20 60;
  gdo w <- gen_workload (N.to_nat n) (map snd ps);
  gret (map fst ps, w).
