(* Generators of multi-exporter NetFlow histories for the pipe checks (C06, C07, C11, C12, C01). *)
From Coq Require Import String NArith List Bool.
From GF Require Import Base.Res Base.Bytes Base.Layout Base.Gen Model.NF Model.NFv5 Model.Pipe
     Spec.EncNF Spec.EncNFv5 Spec.GenNF.
Import ListNotations.
Open Scope N_scope.

Definition exporters : list exporter :=
  [ {| eAddr := [10;0;0;1]; ePort := 2000 |};
    {| eAddr := [10;0;0;1]; ePort := 2001 |};
    {| eAddr := [10;0;0;2]; ePort := 2000 |};
    {| eAddr := [32;1;13;184;0;0;0;0;0;0;0;0;0;0;0;1]; ePort := 2000 |};
    {| eAddr := [0;0;0;0;0;0;0;0;0;0;255;255;10;0;0;1]; ePort := 2000 |} ].
Definition domains : list N := [0; 1; 4294967295].

(* scope of a template context *)
Definition scope := (N * N * N)%type. (* exporter index, version, domain *)
Definition scope_eqb (a b : scope) : bool :=
  let '(a1, a2, a3) := a in let '(b1, b2, b3) := b in (a1 =? b1) && (a2 =? b2) && (a3 =? b3).
Definition ctxs := list (scope * ctx).
Fixpoint ctxs_get (c : ctxs) (k : scope) : ctx :=
  match c with [] => [] | (k', x) :: r => if scope_eqb k' k then x else ctxs_get r k end.

(* an options template announcing a sampling element, and one data record for it *)
Definition gen_sampling (ver : N) (c : ctx) : Gen (list aset * ctx) :=
  gdo id <- gen_tid;
  gdo el <- gpick 305 [305; 50; 34];
  gdo wl <- grand 8;
  let w := if wl =? 0 then 2 else if wl =? 1 then 8 else 4 in
  gdo extra <- grand 2;
  let sc := [{| aEnt := false; aId := 1; aLen := 4; aPen := 0 |}] in
  let op := (if extra =? 0 then [] else [{| aEnt := false; aId := 36; aLen := 2; aPen := 0 |}]) ++
            [{| aEnt := false; aId := el; aLen := w; aPen := 0 |}] in
  gdo rate <- gval 32;
  gdo a <- gen_values sc;
  gdo b0 <- gen_values op;
  let b := firstn (length b0 - 1) b0 ++ [enc_be (N.to_nat w) (rate mod 2 ^ (8 * w))] in
  gret ([AOptTmpl [(id, (sc, op))]; AOptData id sc op [(a, b)] 0], COpt id sc op :: c).

(* a data set for a template nobody announced *)
Definition gen_unknown_data (ver : N) : Gen aset :=
  gdo id <- grange 270 272;
  gdo fs <- fresh_fields ver;
  gdo recs <- glist 2 (gen_values fs);
  gret (AData id fs recs 0).

Definition gen_pipe_msg (ver dom : N) (c : ctx) : Gen (amsg * ctx) :=
  gdo mc <- gen_msg ver dom c;
  gdo k <- grand 6;
  let '(m, c1) := mc in
  match k with
  | 0 => gdo sc <- gen_sampling ver c1;
         gret ({| aVer := aVer m; aHdr := aHdr m; aSets := fst sc ++ aSets m |}, snd sc)
  | 1 => gdo sc <- gen_sampling ver c1;
         gret ({| aVer := aVer m; aHdr := aHdr m; aSets := aSets m ++ fst sc |}, snd sc)
  | 2 => gdo u <- gen_unknown_data ver;
         gdo front <- gbool;
         gret ({| aVer := aVer m; aHdr := aHdr m;
                  aSets := if front then u :: aSets m else aSets m ++ [u] |}, c1)
  | _ => gret (m, c1)
  end.

Definition gen_v5_dgram : Gen bytes :=
  gdo hr <- gen_v5_wf; gret (encode_v5 (fst hr) (snd hr)).

Fixpoint gen_pipe_hist (n : nat) (cs : ctxs) : Gen (list (exporter * N * bytes)) :=
  match n with
  | O => gret []
  | S k =>
      gdo ei <- grand 5;
      gdo tr <- gval 62;
      let e := nth (N.to_nat ei) exporters {| eAddr := [10;0;0;1]; ePort := 2000 |} in
      gdo kind <- grand 12;
      if kind =? 0 then
        gdo d <- gen_v5_dgram;
        gdo r <- gen_pipe_hist k cs;
        gret ((e, tr, d) :: r)
      else
        gdo v <- grand 2;
        let ver := if v =? 0 then 9 else 10 in
        gdo dom <- gpick 0 domains;
        let sc := (ei, ver, dom) in
        gdo mc <- gen_pipe_msg ver dom (ctxs_get cs sc);
        gdo r <- gen_pipe_hist k ((sc, snd mc) :: cs);
        gret ((e, tr, encode_nf (fst mc)) :: r)
  end.

Definition gen_pipe_case : Gen (list (exporter * N * bytes)) :=
  gdo n <- grange 5 30;
  gen_pipe_hist (N.to_nat n) [].
