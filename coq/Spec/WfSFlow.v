(* Well-formed abstract sFlow v5 datagrams: the domain of the C04 round trip, as boolean predicates
   (so that generated datagrams can be checked to lie inside it). *)
From Coq Require Import String NArith List Bool.
From GF Require Import Base.Res Base.Bytes Base.Layout Model.SFlow Spec.EncSFlow.
Import ListNotations.
Open Scope N_scope.

Definition u32 (x : N) : bool := x <? 4294967296.
Definition all32 (l : list N) : bool := forallb u32 l.
Definition is_ip (ver : N) (b : bytes) : bool :=
  ((ver =? 1) && Nat.eqb (length b) 4) || ((ver =? 2) && Nat.eqb (length b) 16).

Definition known_flow (f : N) : bool :=
  (f =? 1) || (f =? 2) || (f =? 3) || (f =? 4) || (f =? 1001) || (f =? 1002) || (f =? 1003) ||
  (f =? 1036) || (f =? 1037) || (f =? 1038).

(* the length word is the length of the body the encoder emits, and fits 32 bits *)
Definition len_ok (r : srec) : bool := (rLen r =? lenN (enc_rec_body r)) && u32 (rLen r) && u32 (rFmt r).

Definition wf_flow_rec (r : srec) : bool :=
  len_ok r &&
  match rKind r, rVals r, rBlobs r, rLists r with
  | KHeader, [a; b; c; d], [h], [] => (rFmt r =? 1) && all32 [a; b; c; d] && (d =? lenN h)   (* header_length is the length of the header *)
  | KEth, [l; e], [s; t], [] => (rFmt r =? 2) && all32 [l; e] && Nat.eqb (length s) 6 && Nat.eqb (length t) 6
  | KIPv4, [a; b; c; d; e; f], [s; t], [] =>
      (rFmt r =? 3) && all32 [a; b; c; d; e; f] && Nat.eqb (length s) 4 && Nat.eqb (length t) 4
  | KIPv6, [a; b; c; d; e; f], [s; t], [] =>
      (rFmt r =? 4) && all32 [a; b; c; d; e; f] && Nat.eqb (length s) 16 && Nat.eqb (length t) 16
  | KSwitch, [a; b; c; d], [], [] => (rFmt r =? 1001) && all32 [a; b; c; d]
  | KRouter, [v; a; b], [ip], [] => (rFmt r =? 1002) && all32 [a; b] && is_ip v ip
  | KGateway, [v; a; b; c; dests; pt; pl; cl; lp], [ip], [path; comm] =>
      (rFmt r =? 1003) && all32 [a; b; c; dests; pt; pl; cl; lp] && is_ip v ip &&
      all32 path && all32 comm && (lenN path =? pl) && (lenN comm =? cl) && (pl <=? 1000) && (cl <=? 1000) &&
      (if dests =? 0 then (pt =? 0) && (pl =? 0) else true)
  | KQueue, [q], [], [] => (rFmt r =? 1036) && u32 q
  | KAcl, [n; dir], [s], [] => (rFmt r =? 1037) && all32 [n; dir] && u32 (lenN s)
  | KFunc, [], [s], [] => (rFmt r =? 1038) && u32 (lenN s)
  | KRaw, [], [b], [] => negb (known_flow (rFmt r))
  | _, _, _, _ => false
  end.

Definition wf_counter_rec (r : srec) : bool :=
  len_ok r &&
  match rKind r, rBlobs r, rLists r with
  | KIfCounters, [], [] => (rFmt r =? 1) && fits if_counters_ws (rVals r)
  | KEthCounters, [], [] => (rFmt r =? 2) && Nat.eqb (length (rVals r)) 13 && all32 (rVals r)
  | KRaw, [b], [] => negb ((rFmt r =? 1) || (rFmt r =? 2)) && match rVals r with [] => true | _ => false end
  | _, _, _ => false
  end.

Definition sample_nvals (fmt : N) : nat :=
  if fmt =? 1 then 6%nat else if (fmt =? 2) || (fmt =? 4) then 1%nat else if fmt =? 3 then 8%nat else 5%nat.
Definition sample_kind (fmt : N) : skind :=
  if fmt =? 1 then SFlowS else if (fmt =? 2) || (fmt =? 4) then SCounterS else if fmt =? 3 then SExpFlowS else SDropS.
Definition skind_eqb (a b : skind) : bool :=
  match a, b with SNil, SNil | SFlowS, SFlowS | SCounterS, SCounterS | SExpFlowS, SExpFlowS | SDropS, SDropS => true | _, _ => false end.

Definition wf_sample (s : ssample) : bool :=
  match sHdr s with
  | [fmt; len; seq; st; sv] =>
      (1 <=? fmt) && (fmt <=? 5) && skind_eqb (sKind s) (sample_kind fmt) &&
      (len =? lenN (enc_sample_body s)) && u32 len && u32 seq &&
      (if (fmt =? 1) || (fmt =? 2) then (st <? 256) && (sv <? 16777216) else u32 st && u32 sv) &&
      Nat.eqb (length (sVals s)) (sample_nvals fmt) && all32 (sVals s) &&
      (last (sVals s) 0 =? lenN (sRecs s)) && (lenN (sRecs s) <=? 1000) &&
      forallb (if (fmt =? 2) || (fmt =? 4) then wf_counter_rec else wf_flow_rec) (sRecs s)
  | _ => false
  end.

Definition wf_spkt (p : spkt) : bool :=
  match kHdr p with
  | [ver; ipv; sub; seq; up; n] =>
      (ver =? 5) && is_ip ipv (kAgent p) && all32 [sub; seq; up] &&
      (n =? lenN (kSamples p)) && (n <=? 1000) && forallb wf_sample (kSamples p)
  | _ => false
  end.
