(* The documentation table (Spec/DocTable.v, regenerated from docs/protocols.md on every build) against
   the model of the producer: every (column, element id) pair the table names is implemented, i.e. the
   element writes that column.  The domain is the table: finite, enumerated completely. *)
From Coq Require Import String NArith List Bool.
From GF Require Import Base.Res Base.Bytes Model.Msg Model.Packet Model.ProdNF Model.Cfg.
Import ListNotations.
Open Scope N_scope.

(* probe values of the widths elements come in *)
Definition probes : list bytes :=
  [[1]; [1; 2]; [1; 2; 3; 4]; [1; 2; 3; 4; 5; 6]; [1; 2; 3; 4; 5; 6; 7; 8];
   [32; 1; 13; 184; 0; 0; 0; 0; 0; 0; 0; 0; 0; 0; 0; 1]].

Definition dedup (l : list N) : list N :=
  fold_right (fun x acc => if existsb (N.eqb x) acc then acc else x :: acc) [] l.

(* the columns element `id` can write in protocol version `ver` (9 or 10) *)
Definition touches (ver id : N) : list N :=
  dedup (flat_map (fun v => match nf_field empty_prodcfg ver 1700000000 1000 empty_msg id v with
                            | Ok m => map fst (cols m)
                            | _ => []
                            end) probes).

Definition col_of_name (s : string) : option N :=
  match find (fun r => String.eqb (fst (fst (fst r))) s) name_table with
  | Some r => Some (snd (fst r))
  | None => None
  end.

Definition pair_ok (name : string) (ver id : N) : bool :=
  match col_of_name name with
  | Some c => existsb (N.eqb c) (touches ver id)
  | None => false
  end.

Definition row_ok (r : string * list N * list N) : bool :=
  let '(name, v9, ipfix) := r in
  forallb (pair_ok name 9) v9 && forallb (pair_ok name 10) ipfix.

(* the pairs of the table that are NOT implemented (for the report) *)
Definition doc_failures (rows : list (string * list N * list N)) : list (string * N * N) :=
  flat_map (fun r => let '(name, v9, ipfix) := r in
                     map (fun id => (name, 9, id)) (filter (fun id => negb (pair_ok name 9 id)) v9) ++
                     map (fun id => (name, 10, id)) (filter (fun id => negb (pair_ok name 10 id)) ipfix)) rows.
