(* C11, reference: the sampling rate of a NetFlow v9 / IPFIX message is a function of the
   ANNOUNCEMENTS seen so far -- a chronological list of ((exporter address, version, domain), rate)
   -- and of nothing else.  [latest] is the whole specification: the last announcement under the
   key, 0 when there is none. *)
From Coq Require Import String List NArith Bool.
From GF Require Import Base.Res Base.Bytes Base.Layout Model.NF Model.Msg Model.ProdNF Model.Pipe.
Import ListNotations.
Open Scope N_scope.

Definition latest_from (base : skey -> N) (l : list (skey * N)) (k : skey) : N :=
  fold_left (fun cur a => if skey_eqb (fst a) k then snd a else cur) l (base k).
Definition latest := latest_from (fun _ => 0).

(* the key a v9 / IPFIX datagram speaks for, read from its bytes: source address of the exporter
   (the port plays no part), version word, source id / observation domain word of the header *)
Definition dgram_key (e : exporter) (d : bytes) : option skey :=
  match rd 2 d with
  | Ok (ver, d0) =>
      if (ver =? 9) || (ver =? 10) then
        match rd_fields (if ver =? 9 then v9_hdr_ws else ipfix_hdr_ws) d0 with
        | Ok (h, _) => Some (addr_id (eAddr e), ver, nf_dom ver h)
        | _ => None
        end
      else None
  | _ => None
  end.

(* what a datagram announces when it arrives in pipe state [st]: it has to decode (its options
   data is only readable with the options template the exporter sent before or in the same
   datagram) and its records have to convert; then the first options data record carrying 305, 50 or
   34 is the announcement *)
Definition announces (cfg : prodcfg) (st : pstate) (e : exporter) (d : bytes) : option (skey * N) :=
  match rd 2 d with
  | Ok (ver, d0) =>
      if (ver =? 9) || (ver =? 10) then
        match decode_nf_body (tstores_get (psT st) (exp_id e)) ver d0 with
        | Ok (p, _, _) =>
            match fst (produce_nf cfg [] (addr_id (eAddr e)) p), find_sampling (optdata_records (pSets p)) 0 with
            | Ok _, Ok (true, r) => Some ((addr_id (eAddr e), ver, nf_dom ver (pHdr p)), r)
            | _, _ => None
            end
        | _ => None
        end
      else None
  | _ => None
  end.

(* the pipe state after a history, and the announcements the history made, oldest first *)
Fixpoint nf_after (cfg : prodcfg) (st : pstate) (h : list (exporter * N * bytes)) : pstate :=
  match h with
  | [] => st
  | (e, tr, d) :: r => nf_after cfg (step_state st (nf_step cfg st e tr d)) r
  end.
Fixpoint anns (cfg : prodcfg) (st : pstate) (h : list (exporter * N * bytes)) : list (skey * N) :=
  match h with
  | [] => []
  | (e, tr, d) :: r =>
      (match announces cfg st e d with Some a => [a] | None => [] end)
        ++ anns cfg (step_state st (nf_step cfg st e tr d)) r
  end.

(* the expected output of a history in the C11 check: the model pipe's output with the rate of every
   v9 / IPFIX message overwritten by the reference [latest]; theorem c11_reference_run: nothing is
   changed by the overwriting *)
Fixpoint rate_run (cfg : prodcfg) (st : pstate) (seen : list (skey * N)) (h : list (exporter * N * bytes)) : list tok :=
  match h with
  | [] => []
  | (e, tr, d) :: r =>
      let s := nf_step cfg st e tr d in
      let seen' := seen ++ (match announces cfg st e d with Some a => [a] | None => [] end) in
      let s' := match s with
                | Ok (st', o, ms) =>
                    Ok (st', o, map (fun m => match dgram_key e d with
                                              | Some k => msetI m cSamplingRate (latest seen' k)
                                              | None => m end) ms)
                | x => x
                end in
      show_step s' ++ (TS "|"%string :: rate_run cfg (step_state st s) seen' r)
  end.

