(* The NetFlow v5 and sFlow columns of the documentation table (Spec/DocTable.v doc_v5 / doc_sflow, regenerated
   from docs/protocols.md on every build) against the model of the producers, and the layout of the v5 structs
   (regenerated from decoders/netflowlegacy/packet.go) against the widths the model decodes with.
   The vocabulary of the cells is interpreted HERE; a cell this file does not understand makes the check fail,
   so a reworded table has to be looked at. *)
From Coq Require Import String NArith List Bool.
From GF Require Import Base.Res Base.Bytes Model.Msg Model.NFv5 Model.NF Model.SFlow Model.Packet Model.ProdNF Model.ProdSF
     Model.Cfg Model.Render Spec.Frame Spec.DocTable Spec.DocCheck Spec.RenderTables.
Import ListNotations.
Local Open Scope string_scope.
Open Scope N_scope.

(* ---- the model reads the v5 header and records with the widths of the Go structs ---- *)
Definition v5_layout_ok : bool :=
  (* header: the model reads the version word separately *)
  (if list_eq_dec N.eq_dec (map snd v5_header_layout) (2 :: map N.of_nat v5_hdr_ws) then true else false) &&
  (if list_eq_dec N.eq_dec (map snd v5_record_layout) (map N.of_nat v5_rec_ws) then true else false).

(* ---- NetFlow v5 ---- *)
(* a probe record: field i carries 1000 + i (100 + i when it is one byte wide): all different, none zero, all fit *)
Definition probe_v5_rec : v5rec :=
  map (fun iw => if Nat.eqb (snd iw) 1 then 100 + N.of_nat (fst iw) else 1000 + N.of_nat (fst iw)) (combine (seq 0 20) v5_rec_ws).
(* header: count uptime secs nsecs seq engine-type engine-id sampling *)
Definition probe_v5_hdr : list N := [1; 5000000; 1700000000; 7; 4242; 0; 0; 100].
Definition probe_v5_msg : msg := hd empty_msg (produce_v5 (probe_v5_hdr, [probe_v5_rec])).

Fixpoint index_of (s : string) (l : list (string * N)) (i : nat) : option nat :=
  match l with [] => None | (n, _) :: r => if String.eqb n s then Some i else index_of s r (S i) end.

Definition col_written (m : msg) (c : N) : bool := match show_col m c with [] => false | _ => true end.

(* the value of a column as a number (addresses big endian) *)
Definition col_num (m : msg) (c : N) : N :=
  match alookup (cols m) c with Some (VI n) => n | Some (VB b) => be b | _ => 0 end.

Definition v5_cell_ok (name cell : string) (field : option string) : bool :=
  match col_of_name (if String.eqb name "Type" then "type" else name) with
  | None => false
  | Some c =>
      match field with
      | Some f =>
          (* the cell names a record field: the column carries that field's value *)
          match index_of f v5_record_layout 0 with
          | Some i => col_num probe_v5_msg c =? nth i probe_v5_rec 0
          | None => false
          end
      | None =>
          if String.eqb cell "" then true
          else if String.eqb cell "NETFLOW_V5" then
            (mgetI probe_v5_msg c =? 2) && match lookup_name flowtype_names 2 with Some s => String.eqb s "NETFLOW_V5" | None => false end
          else if String.eqb cell "IPv4" then mgetI probe_v5_msg c =? 2048
          else if String.eqb cell "Included" then
            (* time_received_ns is stamped by the pipe, the other two by the producer *)
            String.eqb name "time_received_ns" || col_written probe_v5_msg c
          else if String.eqb cell "IP source of packet" then String.eqb name "sampler_address"
          else if String.eqb cell "System uptime and first" then
            (* base time minus (uptime - first) milliseconds *)
            mgetI probe_v5_msg c =? (1700000000 * 1000000000 + 7) - (5000000 - nth 7 probe_v5_rec 0) * 1000000
          else if String.eqb cell "System uptime and last" then
            mgetI probe_v5_msg c =? (1700000000 * 1000000000 + 7) - (5000000 - nth 8 probe_v5_rec 0) * 1000000
          else false
      end
  end.
Definition v5_doc_failures : list string :=
  flat_map (fun r => let '(name, cell, f) := r in if v5_cell_ok name cell f then [] else [name]) doc_v5.

(* ---- sFlow ---- *)
Definition rec_of (f : N) (k : rkind) (vals : list N) (blobs : list bytes) (lists : list (list N)) : srec :=
  {| rFmt := f; rLen := 0; rKind := k; rVals := vals; rBlobs := blobs; rLists := lists |}.
(* src vlan, src priority, dst vlan, dst priority *)
Definition probe_switch : srec := rec_of 1001 KSwitch [11; 12; 13; 14] [] [].
(* next hop (IPv4), source mask, destination mask *)
Definition probe_router : srec := rec_of 1002 KRouter [1; 24; 25] [[10; 0; 0; 9]] [].
(* next hop, AS, source AS, source peer AS, one AS_SEQUENCE segment [64512 64513], communities [100 200], local pref *)
Definition probe_gateway : srec :=
  rec_of 1003 KGateway [1; 65001; 65002; 65003; 1; 2; 2; 2; 100] [[10; 0; 0; 8]] [[64512; 64513]; [100; 200]].
Definition probe_ip4 : ip4 := {| i4Tos := 8; i4Ttl := 61; i4Id := 777; i4Off := 0; i4Flags := 2; i4Src := [10;1;1;1]; i4Dst := [10;2;2;2] |}.
Definition probe_ip4f : ip4 := {| i4Tos := 8; i4Ttl := 61; i4Id := 777; i4Off := 185; i4Flags := 1; i4Src := [10;1;1;1]; i4Dst := [10;2;2;2] |}.
Definition probe_ip6 : ip6 := {| i6Tc := 3; i6Flow := 70000; i6Hop := 9; i6Src := [32;1;13;184;0;0;0;0;0;0;0;0;0;0;0;1];
                                  i6Dst := [32;1;13;184;0;0;0;0;0;0;0;0;0;0;0;2]; i6Srh := None; i6Frag := None |}.
Definition fr (vl : list N) (mp : list (N * N)) (o : l3) (x : l4) : frame :=
  {| fDst := 1108152157446; fSrc := 2207613190663; fVlans := vl; fMpls := mp; fOuter := o; fTun := TNone; fInner := o;
     fL4 := x; fTail := [1; 2; 3] |}.
Definition probe_frames : list frame :=
  [fr [100] [] (L3v4 probe_ip4) (L4TCP 1234 443 18 0);
   fr [] [] (L3v6 probe_ip6) (L4UDP 5353 53);
   fr [] [] (L3v4 probe_ip4) (L4ICMP 8 3);
   fr [] [(16001, 63); (16002, 62)] (L3v4 probe_ip4) (L4UDP 1 2);
   fr [] [] (L3v4 probe_ip4f) (L4Other 47 [9; 9; 9; 9])].
Definition hdr_rec (f : frame) : srec :=
  let b := encode_frame f in rec_of 1 KHeader [1; 1500; 0; N.of_nat (length b)] [b] [].
Definition probe_sample (rs : list srec) : ssample :=
  {| sKind := SFlowS; sHdr := [1; 0; 77; 0; 5]; sVals := [512; 1000; 0; 3; 4; N.of_nat (length rs)]; sRecs := rs |}.
Definition probe_pkt (rs : list srec) : spkt :=
  {| kHdr := [5; 1; 0; 4242; 99; 1]; kAgent := [192; 0; 2; 7]; kSamples := [probe_sample rs] |}.
Definition probe_tr : N := 1700000000123456789.
Definition sf_msg (rs : list srec) : msg :=
  match produce_sf empty_pcfg probe_tr (probe_pkt rs) with Ok (m :: _) => m | _ => empty_msg end.

Definition sflow_cell_ok (name cell : string) : bool :=
  match col_of_name (if String.eqb name "Type" then "type" else name) with
  | None => false
  | Some c =>
      let only k := col_written (sf_msg [k]) c in
      if String.eqb cell "" then true
      else if String.eqb cell "SFLOW_5" then
        (mgetI (sf_msg []) c =? 1) && match lookup_name flowtype_names 1 with Some s => String.eqb s "SFLOW_5" | None => false end
      else if String.eqb cell "Included" then
        existsb (fun f => col_written (sf_msg [hdr_rec f]) c) probe_frames
      else if String.eqb cell "Agent IP" then
        match alookup (cols (sf_msg [])) c with Some (VB b) => if list_eq_dec N.eq_dec b [192; 0; 2; 7] then true else false | _ => false end
      else if String.eqb cell "=TimeReceived" then mgetI (sf_msg []) c =? probe_tr
      else if String.eqb cell "Length of sample" then
        forallb (fun f => mgetI (sf_msg [hdr_rec f]) c =? 1500) probe_frames
      else if String.eqb cell "=1" then mgetI (sf_msg [hdr_rec (hd (fr [] [] (L3v4 probe_ip4) (L4UDP 1 2)) probe_frames)]) c =? 1
      else if String.eqb cell "From ExtendedSwitch" then
        only probe_switch && negb (only probe_router) && negb (only probe_gateway)
      else if String.eqb cell "From ExtendedRouter" then
        only probe_router && negb (only probe_switch) && negb (only probe_gateway)
      else if String.eqb cell "From ExtendedGateway" then
        only probe_gateway && negb (only probe_switch) && negb (only probe_router)
      else false
  end.
Definition sflow_doc_failures : list string :=
  flat_map (fun r => let '(name, cell) := r in if sflow_cell_ok name cell then [] else [name]) doc_sflow.

(* ---- the shapes the sFlow record decoder of the model reads ARE the Go structs of decoders/sflow/datastructure.go
   (Spec/DocTable.v sflow_structs, regenerated on every build): kind of each field in declaration order ---- *)
Definition shape_of (fields : list (string * string)) : list string := map snd fields.
Definition struct_shape (name : string) : list string :=
  match find (fun r => String.eqb (fst r) name) sflow_structs with Some (_, fs) => shape_of fs | None => [] end.
Definition strings_eqb (a b : list string) : bool :=
  (Nat.eqb (length a) (length b)) && forallb (fun p => String.eqb (fst p) (snd p)) (combine a b).
Definition u32n (n : nat) : list string := repeat "uint32" n.
Definition sflow_layout_ok : bool :=
  (* format 1: four words, then the header bytes *)
  strings_eqb (struct_shape "SampledHeader") (u32n 4 ++ ["[]byte"]) &&
  (* format 2: length, two MACs, type *)
  strings_eqb (struct_shape "SampledEthernet") ["uint32"; "utils.MacAddress"; "utils.MacAddress"; "uint32"] &&
  (* formats 3 / 4: two words, two addresses, three words (+ one more in the outer struct) *)
  strings_eqb (struct_shape "SampledIPBase") (u32n 2 ++ ["utils.IPAddress"; "utils.IPAddress"] ++ u32n 3) &&
  strings_eqb (struct_shape "SampledIPv4") ["SampledIPBase"; "uint32"] &&
  strings_eqb (struct_shape "SampledIPv6") ["SampledIPBase"; "uint32"] &&
  strings_eqb (struct_shape "ExtendedSwitch") (u32n 4) &&
  strings_eqb (struct_shape "ExtendedRouter") (["uint32"; "utils.IPAddress"] ++ u32n 2) &&
  strings_eqb (struct_shape "ExtendedGateway")
    (["uint32"; "utils.IPAddress"] ++ u32n 6 ++ ["[]uint32"; "uint32"; "[]uint32"; "uint32"]) &&
  strings_eqb (struct_shape "EgressQueue") (u32n 1) &&
  strings_eqb (struct_shape "ExtendedACL") ["uint32"; "string"; "uint32"] &&
  strings_eqb (struct_shape "ExtendedFunction") ["string"] &&
  (* counters: the widths the model reads with *)
  strings_eqb (struct_shape "IfCounters")
    (map (fun w => if Nat.eqb w 8 then "uint64" else "uint32") if_counters_ws) &&
  strings_eqb (struct_shape "EthernetCounters") (u32n 13).

(* ---- the NetFlow v9 / IPFIX header widths of the model are the Go structs' (the model reads the version word first;
   the source id / observation domain is the last header word, the word nf_dom picks) ---- *)
Definition nf_layout_ok : bool :=
  (if list_eq_dec N.eq_dec (map snd v9_header_layout) (2 :: map N.of_nat NF.v9_hdr_ws) then true else false) &&
  (if list_eq_dec N.eq_dec (map snd ipfix_header_layout) (2 :: map N.of_nat NF.ipfix_hdr_ws) then true else false) &&
  (match index_of "SourceId" v9_header_layout 0 with Some i => Nat.eqb i 5 | None => false end) &&
  (match index_of "ObservationDomainId" ipfix_header_layout 0 with Some i => Nat.eqb i 4 | None => false end).

(* ---- cells whose wording the checks above do not know (a reworded table is reported as such, not as a
   wrong mapping) ---- *)
Definition sflow_vocab : list string :=
  [""; "SFLOW_5"; "Included"; "Agent IP"; "=TimeReceived"; "Length of sample"; "=1";
   "From ExtendedSwitch"; "From ExtendedRouter"; "From ExtendedGateway"].
Definition v5_vocab : list string :=
  [""; "NETFLOW_V5"; "IPv4"; "Included"; "IP source of packet"; "System uptime and first"; "System uptime and last"].
Definition sflow_doc_unknown : list string :=
  flat_map (fun r => if existsb (String.eqb (snd r)) sflow_vocab then [] else [fst r]) doc_sflow.
Definition v5_doc_unknown : list string :=
  flat_map (fun r => let '(name, cell, f) := r in
                     match f with Some _ => [] | None => if existsb (String.eqb cell) v5_vocab then [] else [name] end) doc_v5.
