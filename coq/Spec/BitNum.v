(* Bit extraction, stated bit by bit (docs/mapping.md: offset and length in bits; bit 0 is the most
   significant bit of byte 0; bits beyond the end of the buffer read as zero). *)
From Coq Require Import NArith List Bool Arith.
From GF Require Import Base.Res Base.Bytes.
Import ListNotations.
Open Scope N_scope.

(* bit k of the buffer *)
Definition bitv (d : bytes) (k : nat) : N := (nth (k / 8) d 0 / 2 ^ N.of_nat (7 - k mod 8)) mod 2.
(* the number written by the n bits off, off+1, ..., off+n-1, most significant first *)
Definition pack (d : bytes) (off n : nat) : N := fold_left (fun acc t => acc * 2 + bitv d (off + t)) (seq 0 n) 0.
(* byte i of the result: bits off+8i .. of the requested range, at most 8 of them; a last group of
   fewer than 8 bits is right-aligned (shift) or left-aligned (no shift) *)
Definition out_byte (d : bytes) (off len : nat) (shift : bool) (i : nat) : N :=
  let n := Nat.min 8 (len - 8 * i) in
  let v := pack d (off + 8 * i) n in
  if shift then v else v * 2 ^ N.of_nat (8 - n).
Definition get_bits_num (d : bytes) (off len : nat) (shift : bool) : bytes :=
  if Nat.ltb (8 * length d) off then [] else
  if Nat.eqb len 0 then [] else
  map (out_byte d off len shift) (seq 0 ((len + 7) / 8)).
