(* C07 -- one flow message per flow record, in order; none invented.
   Statements only; proofs in Proofs/PipeP.v, Proofs/NFv5P.v. *)
From Coq Require Import List NArith Bool.
From GF Require Import Base.Res Base.Bytes Model.Msg Model.NF Model.NFv5 Model.Packet Model.ProdNF Model.Pipe
     Spec.EncNFv5 Proofs.PipeP Proofs.NFv5P.
Import ListNotations.
Open Scope N_scope.

(* v9 / IPFIX: exactly one message per record of the data sets (templates, options records and
   raw sets contribute none), for EVERY decoded packet *)
Theorem c07_nf_one_per_record : forall cfg ss ip p ms ss',
  produce_nf cfg ss ip p = (Ok ms, ss') -> length ms = length (data_records (pSets p)).
Proof. exact produce_nf_count. Qed.
Print Assumptions c07_nf_one_per_record.

(* none invented: for EVERY byte string used as the body of a data set and EVERY template, the
   records cut from it each occupy at least the template's minimal size: records * size <= bytes *)
Theorem c07_nf_set_bound : forall fs d rs,
  dec_data_set fs d = Ok rs -> (length rs * template_size fs <= length d)%nat /\
                              (rs <> [] -> 0 < template_size fs)%nat.
Proof. exact dec_data_set_bound. Qed.
Print Assumptions c07_nf_set_bound.

(* v5: one message per decoded record; and (C05) decoded records are physically present *)
Theorem c07_v5_one_per_record : forall p, length (produce_v5 p) = length (snd p).
Proof. exact produce_v5_count. Qed.
Print Assumptions c07_v5_one_per_record.

Theorem c07_v5_none_invented : forall d h rs,
  wfb d -> decode_v5 d = Ok (h, rs) -> (48 * length (produce_v5 (h, rs)) + 24 <= length d)%nat.
Proof.
  intros d h rs Hd H. rewrite produce_v5_count. cbn [snd].
  destruct (c05_nothing_else_l d h rs Hd H) as (tail & _ & _ & Hlen). exact Hlen.
Qed.
Print Assumptions c07_v5_none_invented.

(* exact count on well-formed messages: for EVERY store, EVERY well-formed abstract message and
   EVERY configuration under which its conversion succeeds, the pipe emits exactly one message per
   encoded data record -- none for templates, options records or padding *)
From GF Require Import Spec.EncNF.
Theorem c07_exact : forall cfg ss ip st m ms ss',
  wf_msg st m = true ->
  (forall p tnf st', decode_nf st (encode_nf m) = Ok (p, tnf, st') -> produce_nf cfg ss ip p = (Ok ms, ss')) ->
  length ms = total_adata (aSets m).
Proof. exact c07_exact_l. Qed.
Print Assumptions c07_exact.

(* ---- over histories, and in wire order --------------------------------------------------------
   For EVERY history h of datagrams from any exporters and EVERY further v9 / IPFIX datagram that decodes (with the
   templates its exporter has sent so far) to the packet p: the messages handed to the transport are, in order, the
   conversions of the data records of p in the order the sets and their records stand in the datagram -- the i-th
   message is the i-th record -- each stamped with the packet-level columns; or none at all when a record fails to
   convert.  Nothing is emitted for template, options or raw sets. *)
From GF Require Import Spec.RefRate Proofs.RateP.
Theorem c07_history_in_order : forall cfg h e tr d st' o ms ver d0 p tnf s1,
  let st := nf_after cfg init_pstate h in
  rd 2 d = Ok (ver, d0) -> (ver =? 5) = false -> (ver =? 9) || (ver =? 10) = true ->
  decode_nf_body (tstores_get (psT st) (exp_id e)) ver d0 = Ok (p, tnf, s1) ->
  nf_step cfg st e tr d = Ok (st', o, ms) ->
  ms = [] \/
  exists base up ms0 f,
    Forall2 (fun r m => convert_nf cfg (pVer p) base up r = Ok m) (data_records (pSets p)) ms0 /\ ms = map f ms0.
Proof. exact step_messages_in_order. Qed.
Print Assumptions c07_history_in_order.

(* ---- none invented, for the whole datagram and EVERY byte string --------------------------------------------
   present_nf_body (Spec/Present.v) counts the complete data records PHYSICALLY PRESENT in a v9 / IPFIX datagram from
   its bytes and the exporter's templates alone: for each data set of a known template, the bytes its length word
   covers (clipped to what was received) divided by the least size of one record.  For EVERY pipe state, exporter,
   receive time and byte string -- truncated, with inflated counts or lengths, anything -- the messages handed to the
   transport are at most that many; and that count is itself at most the number of bytes received. *)
From GF Require Import Spec.Present Proofs.PresentP.
Theorem c07_nf_none_invented : forall cfg st e tr d st' o ms ver d0,
  rd 2 d = Ok (ver, d0) -> (ver =? 5) = false ->
  nf_step cfg st e tr d = Ok (st', o, ms) ->
  (length ms <= present_nf_body (tstores_get (psT st) (exp_id e)) ver d0)%nat.
Proof. exact nf_step_none_invented. Qed.
Print Assumptions c07_nf_none_invented.

Theorem c07_present_is_physical : forall st ver d, (present_nf_body st ver d <= length d)%nat.
Proof. exact present_nf_body_le. Qed.
Print Assumptions c07_present_is_physical.

(* non-vacuity: an IPFIX template of one 4-byte field, then a data set whose length word covers 10 bytes of body:
   two complete records are present (the last two bytes are no record) *)
Example c07_present_example :
  let t := [0;10; 0;28; 0;0;0;0; 0;0;0;1; 0;0;0;7;  0;2; 0;12; 1;0; 0;1; 0;1;0;4] in
  let dd := [0;30; 0;0;0;0; 0;0;0;2; 0;0;0;7;  1;0; 0;14; 1;2;3;4; 5;6;7;8; 9;9] in
  match decode_nf [] t with
  | Ok (_, _, st) => present_nf_body st 10 dd = 2%nat
  | _ => False
  end.
Proof. vm_compute. reflexivity. Qed.

(* sFlow, EVERY byte string: one message per flow / expanded flow sample of the decoded datagram, and every sample
   occupies at least 20 bytes of it -- a sample count or a record count that claims more than the bytes hold
   invents nothing *)
Theorem c07_sf_none_invented : forall cfg st e tr d st' o ms,
  sf_step cfg st e tr d = Ok (st', o, ms) -> (20 * length ms <= length d)%nat.
Proof. exact sf_step_none_invented. Qed.
Print Assumptions c07_sf_none_invented.
