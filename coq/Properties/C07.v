(* C07 -- one flow message per flow record, in order; none invented.
   Statements only; proofs in Proofs/PipeP.v, Proofs/NFv5P.v. *)
From Coq Require Import List NArith Bool.
From GF Require Import Base.Res Base.Bytes Model.Msg Model.NF Model.NFv5 Model.Packet Model.ProdNF Model.Pipe
     Spec.EncNFv5 Proofs.PipeP Proofs.NFv5P.
Import ListNotations.
Open Scope N_scope.

(* v9 / IPFIX: exactly one message per record of the data sets (templates, options records and
   raw sets contribute none), for EVERY decoded packet *)
Theorem c07_nf_one_per_record : forall cfg ss ip p ms ss',
  produce_nf cfg ss ip p = (Ok ms, ss') -> length ms = length (data_records (pSets p)).
Proof. exact produce_nf_count. Qed.
Print Assumptions c07_nf_one_per_record.

(* none invented: for EVERY byte string used as the body of a data set and EVERY template, the
   records cut from it each occupy at least the template's minimal size: records * size <= bytes *)
Theorem c07_nf_set_bound : forall fs d rs,
  dec_data_set fs d = Ok rs -> (length rs * template_size fs <= length d)%nat /\
                              (rs <> [] -> 0 < template_size fs)%nat.
Proof. exact dec_data_set_bound. Qed.
Print Assumptions c07_nf_set_bound.

(* v5: one message per decoded record; and (C05) decoded records are physically present *)
Theorem c07_v5_one_per_record : forall p, length (produce_v5 p) = length (snd p).
Proof. exact produce_v5_count. Qed.
Print Assumptions c07_v5_one_per_record.

Theorem c07_v5_none_invented : forall d h rs,
  wfb d -> decode_v5 d = Ok (h, rs) -> (48 * length (produce_v5 (h, rs)) + 24 <= length d)%nat.
Proof.
  intros d h rs Hd H. rewrite produce_v5_count. cbn [snd].
  destruct (c05_nothing_else_l d h rs Hd H) as (tail & _ & _ & Hlen). exact Hlen.
Qed.
Print Assumptions c07_v5_none_invented.

(* exact count on well-formed messages: for EVERY store, EVERY well-formed abstract message and
   EVERY configuration under which its conversion succeeds, the pipe emits exactly one message per
   encoded data record -- none for templates, options records or padding *)
From GF Require Import Spec.EncNF.
Theorem c07_exact : forall cfg ss ip st m ms ss',
  wf_msg st m = true ->
  (forall p tnf st', decode_nf st (encode_nf m) = Ok (p, tnf, st') -> produce_nf cfg ss ip p = (Ok ms, ss')) ->
  length ms = total_adata (aSets m).
Proof. exact c07_exact_l. Qed.
Print Assumptions c07_exact.
