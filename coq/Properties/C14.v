(* C14 -- mapping files do what docs/mapping.md says.  (placeholder extended below) *)
From Coq Require Import String List NArith ZArith Bool.
From GF Require Import Base.Res Base.Bytes Model.Msg Model.Packet Model.ProdNF Model.Cfg.
Import ListNotations.
Local Open Scope string_scope.
Open Scope N_scope.

(* a destination that is a custom varint field appends exactly one unknown field with the
   configured number, wire type and the decoded value, and touches no column *)
Theorem c14_custom_varint : forall m v idx arr x,
  dec_unum 64 v = Ok x ->
  map_custom m v {| mDest := DCustom idx true arr; mLittle := false |} =
  Ok {| cols := cols m; unk := unk m ++ [{| uNum := idx; uVarint := true; uInt := x; uBytes := [] |}] |}.
Proof. intros m v idx arr x H. unfold map_custom. cbn [mDest mLittle]. rewrite H. reflexivity. Qed.
Print Assumptions c14_custom_varint.

Theorem c14_custom_string : forall m v idx arr little,
  map_custom m v {| mDest := DCustom idx false arr; mLittle := little |} =
  Ok {| cols := cols m; unk := unk m ++ [{| uNum := idx; uVarint := false; uInt := 0; uBytes := v |}] |}.
Proof. reflexivity. Qed.
Print Assumptions c14_custom_string.

(* a destination naming an existing scalar column fills that column with the decoded value *)
Theorem c14_existing_column : forall m v col x,
  dec_unum (col_bits col) v = Ok x ->
  map_custom m v {| mDest := DScalar col; mLittle := false |} = Ok (msetI m col x).
Proof. intros m v col x H. unfold map_custom. cbn [mDest mLittle]. rewrite H. reflexivity. Qed.
Print Assumptions c14_existing_column.

(* documented names and Go names resolve to the same column *)
Example c14_names : resolve [] "in_if" = DScalar 18 /\ resolve [] "InIf" = DScalar 18 /\
                    resolve [] "src_addr" = DBytes 6 /\ resolve [] "nosuchfield" = DNone.
Proof. vm_compute. repeat split. Qed.

From GF Require Import Model.NF Spec.BitSpec Spec.BitNum Proofs.PacketP Proofs.BitsP.

(* traffic that no NetFlow/IPFIX mapping matches is unaffected by the mappings *)
Theorem c14_unmatched_unaffected : forall cfg ver base up r m,
  (forall f, In f r -> nf_lookup (if ver =? 9 then pNF9 cfg else pIPFIX cfg) f = None) ->
  nf_fields cfg ver base up m r =
  nf_fields {| pNF9 := []; pIPFIX := []; pPacket := pPacket cfg; pNilCfg := pNilCfg cfg |} ver base up m r.
Proof. exact nf_fields_unmatched. Qed.
Print Assumptions c14_unmatched_unaffected.

(* BIT EXTRACTION IS EXACT, for EVERY buffer of bytes, EVERY bit offset and EVERY bit length: GetBytes returns
   the bytes of Spec/BitNum.v -- bit k of the buffer is bit (7 - k mod 8) of byte k/8 (bit 0 = most significant
   bit of byte 0), bits beyond the end read as zero, the requested bits are packed most significant first into
   ceil(len/8) bytes, and a last group of fewer than 8 bits is right-aligned (shift, what the layer mappings
   use) or left-aligned (no shift).  Never a panic, never an error. *)
Theorem c14_getbytes_exact : forall d off len shift, wfb d ->
  get_bytes d (Z.of_nat off) (Z.of_nat len) shift = Ok (get_bits_num d off len shift).
Proof. exact get_bytes_exact. Qed.
Print Assumptions c14_getbytes_exact.

(* the shape of the result and the meaning of one output byte, spelled out *)
Theorem c14_bits_meaning : forall d off len shift i,
  (off <= 8 * length d)%nat -> (i < (len + 7) / 8)%nat ->
  nth i (get_bits_num d off len shift) 0 =
  (let n := Nat.min 8 (len - 8 * i) in
   let v := pack d (off + 8 * i) n in if shift then v else v * 2 ^ N.of_nat (8 - n)).
Proof.
  intros d off len shift i Ho Hi. unfold get_bits_num.
  replace (Nat.ltb (8 * length d) off) with false by (symmetry; apply Nat.ltb_ge; exact Ho).
  destruct (Nat.eqb_spec len 0) as [->|Hl]; [cbn in Hi; inversion Hi|].
  rewrite (nth_indep _ 0 (out_byte d off len shift 0)) by (rewrite map_length, seq_length; exact Hi).
  rewrite map_nth, seq_nth by exact Hi. reflexivity.
Qed.
Example c14_bits_example :
  (* bits 4..15 of [0xAB; 0xCD; 0xEF]: 0xBCD -> right-aligned last nibble *)
  get_bits_num [171; 205; 239] 4 12 true = [188; 13] /\ get_bits_num [171; 205; 239] 4 12 false = [188; 208] /\
  get_bytes [171; 205; 239] 4 12 true = Ok [188; 13] /\
  (* beyond the end: zeros *)
  get_bits_num [255] 4 12 true = [240; 0].
Proof. vm_compute. repeat split. Qed.

(* the older list-of-bits formulation (Spec/BitSpec.v) agrees on a finite domain enumerated inside Coq: ALL
   buffers of at most 2 bytes over the byte basis {0,1,2,4,...,128,255,0xaa,0x55}, ALL offsets and lengths 0..17 *)
Theorem c14_getbytes_small :
  forallb (fun d => forallb (fun off => forallb (fun len => gb_agree d off len true && gb_agree d off len false)
                                        (seq 0 18)) (seq 0 18)) small_bufs = true.
Proof. exact getbytes_small_l. Qed.
Print Assumptions c14_getbytes_small.

(* the partition key is a function of the configured key fields only (the hash and the printing
   of a value are parameters: fnv32a over fmt.Sprintf("%v") in the implementation) *)
Section Key.
  Variable hash : list bytes -> bytes.
  Variable show : option pval -> bytes.
  Definition key_of (keys : list N) (m : msg) : bytes := hash (map (fun k => show (alookup (cols m) k)) keys).
  Theorem c14_key_fields_only : forall keys m m',
    (forall k, In k keys -> alookup (cols m) k = alookup (cols m') k) -> key_of keys m = key_of keys m'.
  Proof.
    intros keys m m' H. unfold key_of. f_equal. apply map_ext_in. intros k Hk. rewrite (H k Hk). reflexivity.
  Qed.
End Key.
Print Assumptions c14_key_fields_only.

(* ---- the field list, renames and renderers shape the textual output (Model/Format.v, compared byte for byte
   with the JSON and text drivers under generated mapping files on every run) ---- *)
From GF Require Import Model.Json Model.Render Model.Format Proofs.FormatGP.

(* whatever is written for a configured field is written under its configured name (the rename if there is one,
   else the name in the field list) *)
Theorem c14_written_under_configured_name : forall c m s k v,
  format_field c m s = Some (Some (k, v)) -> k = bytes_of_string (final_name c s).
Proof. intros c m s k v H. exact (proj1 (format_field_ok c m s k v H)). Qed.
Print Assumptions c14_written_under_configured_name.

(* the members come out in the order of the field list, one per written field *)
Theorem c14_field_list_shapes_output : forall c m ms,
  format_members c m (cFields c) = Some ms ->
  map fst ms = map (fun s => bytes_of_string (final_name c s)) (filter (written c m) (cFields c)).
Proof. exact format_json_keys. Qed.
Print Assumptions c14_field_list_shapes_output.

(* a declared custom field shows up in the text forms exactly in the flows that carry it *)
Theorem c14_custom_text_iff_carried : forall c m s,
  is_custom (cCustoms c) s = true -> struct_by_go s = None ->
  (unk_value (cCustoms c) (unk m) s None = Some None -> format_field c m s = Some None) /\
  (forall v, unk_value (cCustoms c) (unk m) s None = Some (Some v) -> format_field c m s <> Some None).
Proof.
  intros c m s Hc Hg. split.
  - apply custom_absent_not_written; assumption.
  - intros v Hv. apply (custom_present_written c m s v); [|exact Hv].
    unfold remap. rewrite Hc. exact Hg.
Qed.
Print Assumptions c14_custom_text_iff_carried.

(* ---- the partition key (Model/Format.v msg_key: FNV-1 32 over the %v text of the key fields; compared byte
   for byte with the key the binary driver returns under every generated mapping file) ---- *)
(* two flows that agree on the configured key fields get the same key, whatever else differs in them *)
Theorem c14_key_of_key_fields_only : forall c m m',
  (forall s, In s (cKeys c) -> key_text c m s = key_text c m' s) -> msg_key c m = msg_key c m'.
Proof. exact key_fields_only. Qed.
Print Assumptions c14_key_of_key_fields_only.

(* and a key field that is a column of the message contributes that column's value and nothing else *)
Theorem c14_key_field_is_its_column : forall c m s j g col k,
  struct_by_go (remap (cCustoms c) s) = Some (j, g, col, k) -> key_text c m s = Some (show_v (struct_value m g col k)).
Proof. exact key_text_struct. Qed.
Print Assumptions c14_key_field_is_its_column.

(* no key fields configured: no key; otherwise a 4-byte key *)
Theorem c14_key_shape : forall c m k,
  msg_key c m = Some k -> (cKeys c = [] /\ k = []) \/ (cKeys c <> [] /\ length k = 4%nat).
Proof. exact key_shape. Qed.
Print Assumptions c14_key_shape.

(* non-vacuity: FNV-1 of "a" is 0x050c5d7e; a message keyed by its source address *)
Example c14_key_example :
  enc_be 4 (fnv1_32 [97]) = [5; 12; 93; 126] /\
  match compile_fmt {| fFields := []; fRename := []; fRender := []; fKeys := ["src_addr"%string; "src_port"%string] |} [] with
  | Some c => key_texts c (msetI (msetB empty_msg cSrcAddr [10;0;0;1]) cSrcPort 443) (cKeys c)
              = Some (bytes_of_string "[10 0 0 1]443")
  | None => False
  end.
Proof. vm_compute. split; reflexivity. Qed.

(* ---- what the loader refuses (compared with ProducerConfig.Compile on hand-written edge files on every run) ---- *)
From GF Require Import Spec.RenderTables.
Theorem c14_unknown_renderer_rejected : forall f cs k r,
  In (k, r) (fRender f) -> sassoc registered_renderers r = None -> compile_fmt f cs = None.
Proof. exact unknown_renderer_rejected. Qed.
Print Assumptions c14_unknown_renderer_rejected.
Theorem c14_unknown_field_rejected : forall f cs conf s,
  configured_renderers f cs = Some conf -> In s (fFields f) -> in_remap cs s = false -> render_fn conf s = None ->
  compile_fmt f cs = None.
Proof. exact unknown_field_rejected. Qed.
Print Assumptions c14_unknown_field_rejected.
Theorem c14_unknown_key_rejected : forall f cs s,
  In s (fKeys f) -> in_remap cs s = false -> compile_fmt f cs = None.
Proof. exact unknown_key_rejected. Qed.
Print Assumptions c14_unknown_key_rejected.
(* "network" and "type" are renderer ids the code declares but does not register: a file naming them is refused *)
Example c14_unregistered_renderers :
  sassoc registered_renderers "network"%string = None /\ sassoc registered_renderers "type"%string = None /\
  sassoc registered_renderers "ip"%string = Some "IPRenderer"%string.
Proof. vm_compute. repeat split. Qed.
