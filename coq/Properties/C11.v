(* C11 -- the sampling rate follows the exporter's latest announcement.
   Statements only; proofs in Proofs/PipeP.v. *)
From Coq Require Import List NArith Bool.
From GF Require Import Base.Res Base.Bytes Model.Msg Model.NF Model.NFv5 Model.Packet Model.ProdNF Model.Pipe
     Proofs.PipeP.
Import ListNotations.
Open Scope N_scope.

(* for EVERY decoded v9/IPFIX packet and EVERY sampling state: each produced message carries the
   rate announced in this very packet when it announces one, otherwise the rate stored for
   (exporter address, version, domain), otherwise 0; afterwards the store maps exactly that key
   to the announcement and every other key (other exporter, version or domain) to what it held *)
Theorem c11_rate : forall cfg ss ip p ms ss',
  produce_nf cfg ss ip p = (Ok ms, ss') ->
  exists found rate,
    find_sampling (optdata_records (pSets p)) 0 = Ok (found, rate) /\
    Forall (fun m => mgetI m cSamplingRate =
                     if found then rate else rate_of ss (ip, pVer p, nf_dom (pVer p) (pHdr p))) ms /\
    (forall k, rate_of ss' k =
               if found && skey_eqb (ip, pVer p, nf_dom (pVer p) (pHdr p)) k then rate else rate_of ss k).
Proof. exact produce_nf_rate. Qed.
Print Assumptions c11_rate.

Theorem c11_key_equality : forall a b, skey_eqb a b = true <-> a = b.
Proof. exact skey_eqb_eq. Qed.
Print Assumptions c11_key_equality.

(* NetFlow v5 carries the 14-bit interval of its own header *)
Theorem c11_v5_own_rate : forall h rs,
  Forall (fun m => mgetI m cSamplingRate = nth 7%nat h 0 mod 16384) (produce_v5 (h, rs)).
Proof.
  intros h rs. unfold produce_v5. apply Forall_forall. intros m Hm.
  apply in_map_iff in Hm. destruct Hm as (r & <- & _). reflexivity.
Qed.
Print Assumptions c11_v5_own_rate.

(* non-vacuity: an options record announcing 305 = 1000 is found *)
Example c11_nonvacuous :
  find_sampling [([], [{| dPenP := false; dType := 305; dPen := 0; dVal := Some [0;0;3;232] |}])] 0
  = Ok (true, 1000).
Proof. vm_compute. reflexivity. Qed.

(* at the level of one DecodeFlow call of the NetFlow pipe: the messages handed to the transport carry
   that rate, and the pipe's sampling state afterwards differs from the one before only at the key
   (exporter address, version, domain) of an announcement *)
Theorem c11_step : forall cfg st e tr d st' o ms ver d0 p tnf s1 ms0 ss',
  rd 2 d = Ok (ver, d0) -> (ver =? 5) = false -> (ver =? 9) || (ver =? 10) = true ->
  decode_nf_body (tstores_get (psT st) (exp_id e)) ver d0 = Ok (p, tnf, s1) ->
  produce_nf cfg (psS st) (addr_id (eAddr e)) p = (Ok ms0, ss') ->
  nf_step cfg st e tr d = Ok (st', o, ms) ->
  exists found rate,
    find_sampling (optdata_records (pSets p)) 0 = Ok (found, rate) /\
    Forall (fun m => mgetI m cSamplingRate =
                     if found then rate else rate_of (psS st) (addr_id (eAddr e), pVer p, nf_dom (pVer p) (pHdr p))) ms /\
    (forall k, rate_of (psS st') k =
               if found && skey_eqb (addr_id (eAddr e), pVer p, nf_dom (pVer p) (pHdr p)) k then rate else rate_of (psS st) k).
Proof. exact nf_step_rate. Qed.
Print Assumptions c11_step.
