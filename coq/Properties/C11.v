(* C11 -- the sampling rate follows the exporter's latest announcement.
   Statements only; proofs in Proofs/PipeP.v. *)
From Coq Require Import List NArith Bool.
From GF Require Import Base.Res Base.Bytes Base.Gen Model.Msg Model.NF Model.NFv5 Model.Packet Model.ProdNF Model.Pipe
     Spec.RefRate Spec.GenPipe Proofs.PipeP Proofs.RateP.
Import ListNotations.
Open Scope N_scope.

(* for EVERY decoded v9/IPFIX packet and EVERY sampling state: each produced message carries the
   rate announced in this very packet when it announces one, otherwise the rate stored for
   (exporter address, version, domain), otherwise 0; afterwards the store maps exactly that key
   to the announcement and every other key (other exporter, version or domain) to what it held *)
Theorem c11_rate : forall cfg ss ip p ms ss',
  produce_nf cfg ss ip p = (Ok ms, ss') ->
  exists found rate,
    find_sampling (optdata_records (pSets p)) 0 = Ok (found, rate) /\
    Forall (fun m => mgetI m cSamplingRate =
                     if found then rate else rate_of ss (ip, pVer p, nf_dom (pVer p) (pHdr p))) ms /\
    (forall k, rate_of ss' k =
               if found && skey_eqb (ip, pVer p, nf_dom (pVer p) (pHdr p)) k then rate else rate_of ss k).
Proof. exact produce_nf_rate. Qed.
Print Assumptions c11_rate.

Theorem c11_key_equality : forall a b, skey_eqb a b = true <-> a = b.
Proof. exact skey_eqb_eq. Qed.
Print Assumptions c11_key_equality.

(* NetFlow v5 carries the 14-bit interval of its own header *)
Theorem c11_v5_own_rate : forall h rs,
  Forall (fun m => mgetI m cSamplingRate = nth 7%nat h 0 mod 16384) (produce_v5 (h, rs)).
Proof.
  intros h rs. unfold produce_v5. apply Forall_forall. intros m Hm.
  apply in_map_iff in Hm. destruct Hm as (r & <- & _). reflexivity.
Qed.
Print Assumptions c11_v5_own_rate.

(* non-vacuity: an options record announcing 305 = 1000 is found *)
Example c11_nonvacuous :
  find_sampling [([], [{| dPenP := false; dType := 305; dPen := 0; dVal := Some [0;0;3;232] |}])] 0
  = Ok (true, 1000).
Proof. vm_compute. reflexivity. Qed.

(* at the level of one DecodeFlow call of the NetFlow pipe: the messages handed to the transport carry
   that rate, and the pipe's sampling state afterwards differs from the one before only at the key
   (exporter address, version, domain) of an announcement *)
Theorem c11_step : forall cfg st e tr d st' o ms ver d0 p tnf s1 ms0 ss',
  rd 2 d = Ok (ver, d0) -> (ver =? 5) = false -> (ver =? 9) || (ver =? 10) = true ->
  decode_nf_body (tstores_get (psT st) (exp_id e)) ver d0 = Ok (p, tnf, s1) ->
  produce_nf cfg (psS st) (addr_id (eAddr e)) p = (Ok ms0, ss') ->
  nf_step cfg st e tr d = Ok (st', o, ms) ->
  exists found rate,
    find_sampling (optdata_records (pSets p)) 0 = Ok (found, rate) /\
    Forall (fun m => mgetI m cSamplingRate =
                     if found then rate else rate_of (psS st) (addr_id (eAddr e), pVer p, nf_dom (pVer p) (pHdr p))) ms /\
    (forall k, rate_of (psS st') k =
               if found && skey_eqb (addr_id (eAddr e), pVer p, nf_dom (pVer p) (pHdr p)) k then rate else rate_of (psS st) k).
Proof. exact nf_step_rate. Qed.
Print Assumptions c11_step.

(* ---- over histories --------------------------------------------------------------------------
   THE property.  Spec/RefRate.v: [anns cfg init h] is the chronological list of announcements
   ((exporter address, version, domain), rate) the datagrams of a history made, [latest l k] the last
   one under key k, 0 when there is none, [dgram_key e d] the key read from the datagram's own bytes
   (source address without the port, version word, source-id / observation-domain word).
   For EVERY history h of datagrams from any exporters and EVERY further v9 / IPFIX datagram d: each
   message the pipe emits for d carries [latest] of the announcements of h followed by d's own. *)
Theorem c11_history : forall cfg h e tr d st' o ms k,
  dgram_key e d = Some k ->
  nf_step cfg (nf_after cfg init_pstate h) e tr d = Ok (st', o, ms) ->
  Forall (fun m => mgetI m cSamplingRate = latest (anns cfg init_pstate (h ++ [(e, tr, d)])) k) ms.
Proof. exact rate_history. Qed.
Print Assumptions c11_history.

(* what [latest] means: the last announcement under the key wins, announcements under any other key
   (another exporter address, version or domain) can be deleted from the past without effect, and
   nothing announced means 0 *)
Theorem c11_latest_wins : forall l a, latest (l ++ [a]) (fst a) = snd a.
Proof. exact latest_last. Qed.
Print Assumptions c11_latest_wins.
Theorem c11_other_keys_irrelevant : forall l1 l2 a k,
  skey_eqb (fst a) k = false -> latest (l1 ++ a :: l2) k = latest (l1 ++ l2) k.
Proof. exact latest_other. Qed.
Print Assumptions c11_other_keys_irrelevant.
Theorem c11_nothing_announced : forall k, latest [] k = 0.
Proof. exact latest_none. Qed.
Print Assumptions c11_nothing_announced.
(* the source port of the exporter is not part of the key *)
Theorem c11_port_irrelevant : forall a p1 p2 d,
  dgram_key {| eAddr := a; ePort := p1 |} d = dgram_key {| eAddr := a; ePort := p2 |} d.
Proof. exact dgram_key_port. Qed.
Print Assumptions c11_port_irrelevant.

(* the sampling store after any history holds, under every key, the latest announcement *)
Theorem c11_store_is_latest : forall cfg h k,
  rate_of (psS (nf_after cfg init_pstate h)) k = latest (anns cfg init_pstate h) k.
Proof. intros cfg h k. exact (store_is_latest cfg h init_pstate k). Qed.
Print Assumptions c11_store_is_latest.

(* the EXPECTED outputs of the check (Drivers/D11.v: the model pipe's messages with the rate column
   overwritten by the reference [latest]) are, for every history, the model pipe's own output *)
Theorem c11_reference_run : forall cfg h,
  rate_run cfg init_pstate [] h = nf_run cfg init_pstate h.
Proof. intros cfg h. apply rate_run_is_pipe_run. intros k. reflexivity. Qed.
Print Assumptions c11_reference_run.

(* non-vacuity: the second generated history of seed 1 makes several announcements *)
Example c11_history_nonvacuous :
  Nat.leb 2 (length (anns empty_prodcfg init_pstate (gcase gen_pipe_case 1 1))) = true.
Proof. vm_compute. reflexivity. Qed.
