(* C04 -- sFlow v5 wire decoding is exact.  Statements only; proofs in Proofs/SFlowRT.v, Proofs/PacketP.v. *)
From Coq Require Import List NArith Bool.
From GF Require Import Base.Res Base.Bytes Base.Gen Model.SFlow Spec.EncSFlow Spec.WfSFlow Proofs.PacketP Proofs.SFlowRT.
Import ListNotations.
Open Scope N_scope.

(* records of unknown type are skipped by their declared length without disturbing what follows:
   for EVERY unknown format, EVERY body and EVERY continuation *)
Theorem c04_unknown_skipped : forall c fmt body rest,
  known_flow_fmt fmt = false -> fmt < 4294967296 -> lenN body < 4294967296 ->
  dec_records (S c) true (e4 fmt ++ e4 (lenN body) ++ body ++ rest) =
  (let* rs := dec_records c true rest in Ok (mkrec fmt (lenN body) KRaw [] [body] [] :: rs)).
Proof. exact dec_records_unknown. Qed.
Print Assumptions c04_unknown_skipped.

(* XDR strings: the reader returns the string and stops exactly behind the padding *)
Theorem c04_string_padding : forall s rest,
  lenN s < 4294967296 -> rd_string (enc_string s ++ rest) = Ok (s, rest).
Proof. exact rd_string_enc. Qed.
Print Assumptions c04_string_padding.

(* THE PROPERTY: EVERY well-formed abstract datagram -- any number of samples up to the decoder's cap of
   1000, all five sample formats, every record kind of Model/SFlow.v (raw header, sampled Ethernet / IPv4 /
   IPv6, extended switch / router / gateway with 0 or 1 AS-path segment and communities, egress queue, ACL,
   function, generic interface and Ethernet counters) and records of unknown format, IPv4 or IPv6 agents,
   strings of any length with XDR padding -- decodes to exactly what was encoded.  wf_spkt (Spec/WfSFlow.v)
   is the boolean well-formedness of the abstract value: 32-bit words fit 32 bits, length words are the
   lengths the independent encoder emits, counts are the list lengths, addresses are 4 or 16 bytes. *)
Theorem c04_roundtrip : forall p, wf_spkt p = true -> decode_sf (encode_sf p) = Ok p.
Proof. exact sflow_roundtrip. Qed.
Print Assumptions c04_roundtrip.

(* so two different well-formed datagrams never share an encoding *)
Theorem c04_encode_injective : forall p q, wf_spkt p = true -> wf_spkt q = true -> encode_sf p = encode_sf q -> p = q.
Proof.
  intros p q Hp Hq E. pose proof (c04_roundtrip p Hp) as A. rewrite E, (c04_roundtrip q Hq) in A. congruence.
Qed.
Print Assumptions c04_encode_injective.

(* non-vacuity: the datagrams the check sends to the real decoder lie inside the theorem's domain, and
   they are not trivial (the first one has samples with records) *)
Example c04_generated_are_wf :
  forallb (fun i => wf_spkt (gcase gen_spkt 1 i)) [0;1;2;3;4;5;6;7;8;9;10;11;12;13;14;15;16;17;18;19] = true /\
  forallb (fun i => wf_spkt (gcase gen_spkt 2 i)) [0;1;2;3;4;5;6;7;8;9] = true /\
  existsb (fun s => negb (match sRecs s with [] => true | _ => false end)) (kSamples (gcase gen_spkt 1 0)) = true.
Proof. vm_compute. repeat split. Qed.

(* the extracted decoder agrees with the evaluation inside Coq on generated datagrams *)
Definition rt_ok (p : spkt) : bool := toks_eqb (show_sf (decode_sf (encode_sf p))) (show_sf (Ok p)).
Example c04_roundtrip_eval : forallb rt_ok (map (gcase gen_spkt 1) [0;1;2;3;4;5;6;7;8;9]) = true.
Proof. vm_compute. reflexivity. Qed.

(* the shapes the record decoder of the model reads (how many 32-bit words, where the addresses, strings and
   lists stand, the 32/64-bit widths of the interface counters) ARE the record structs of
   decoders/sflow/datastructure.go, regenerated from the source on every build (Spec/DocTable.v sflow_structs) *)
From GF Require Import Spec.DocCheck2.
Theorem c04_layouts_are_the_go_structs : sflow_layout_ok = true.
Proof. vm_compute. reflexivity. Qed.
Print Assumptions c04_layouts_are_the_go_structs.
