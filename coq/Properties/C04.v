(* C04 -- sFlow v5 wire decoding is exact.  Statements only; proofs in Proofs/PacketP.v. *)
From Coq Require Import List NArith Bool.
From GF Require Import Base.Res Base.Bytes Base.Gen Model.SFlow Spec.EncSFlow Proofs.PacketP.
Import ListNotations.
Open Scope N_scope.

(* records of unknown type are skipped by their declared length without disturbing what follows:
   for EVERY unknown format, EVERY body and EVERY continuation *)
Theorem c04_unknown_skipped : forall c fmt body rest,
  known_flow_fmt fmt = false -> fmt < 4294967296 -> lenN body < 4294967296 ->
  dec_records (S c) true (e4 fmt ++ e4 (lenN body) ++ body ++ rest) =
  (let* rs := dec_records c true rest in Ok (mkrec fmt (lenN body) KRaw [] [body] [] :: rs)).
Proof. exact dec_records_unknown. Qed.
Print Assumptions c04_unknown_skipped.

(* XDR strings: the reader returns the string and stops exactly behind the padding *)
Theorem c04_string_padding : forall s rest,
  lenN s < 4294967296 -> rd_string (enc_string s ++ rest) = Ok (s, rest).
Proof. exact rd_string_enc. Qed.
Print Assumptions c04_string_padding.

(* the datagram round trip decode (encode S) = S is NOT proved for all S (c04_roundtrip of
   DESIGN.md); it is checked by evaluation on generated datagrams here and by the correspondence
   run of every check.  Named _partial accordingly. *)
Definition rt_ok (p : spkt) : bool := toks_eqb (show_sf (decode_sf (encode_sf p))) (show_sf (Ok p)).
Example c04_roundtrip_partial : forallb rt_ok (map (gcase gen_spkt 1) [0;1;2;3;4;5;6;7;8;9]) = true.
Proof. vm_compute. reflexivity. Qed.
