(* C03 -- NetFlow v9 / IPFIX wire decoding is exact.  Statements only; proofs in Proofs/NFEnc.v. *)
From Coq Require Import List NArith Bool.
From GF Require Import Base.Res Base.Bytes Base.Layout Base.Gen Model.NF Spec.EncNF Spec.GenNF Proofs.NFEnc.
Import ListNotations.
Open Scope N_scope.

(* for EVERY template state st and EVERY well-formed abstract message m (any number of sets,
   fields, records; variable-length and enterprise fields; padding shorter than a record):
   decoding the RFC encoding yields exactly m in the decoder's vocabulary, no
   template-not-found, and the store the message announces *)
Theorem c03_roundtrip : forall st m,
  wf_msg st m = true ->
  decode_nf st (encode_nf m) = Ok (expected_pkt m, false, expected_store st m).
Proof. exact c03_roundtrip_l. Qed.
Print Assumptions c03_roundtrip.

(* one set decodes to itself whatever follows it ("several sets per message") *)
Theorem c03_sets_compositional : forall st ver dom s rest,
  wf_set st ver dom s = true -> (ver = 9 \/ ver = 10) ->
  dec_flowset st dom ver (enc_set ver s ++ rest)
  = Ok (flowset_of ver s, false, store_after_set st ver dom s, rest).
Proof. exact dec_flowset_enc. Qed.
Print Assumptions c03_sets_compositional.

(* a value decodes byte for byte, under the 1-byte and the 3-byte length prefix alike *)
Theorem c03_value_exact : forall pen f v rest,
  wf_value f v = true ->
  dec_value (field_of pen f) (enc_value f v ++ rest) =
  Ok ({| dPenP := fPenP (field_of pen f); dType := fType (field_of pen f);
         dPen := fPen (field_of pen f); dVal := Some v |}, rest).
Proof. exact dec_value_enc. Qed.
Print Assumptions c03_value_exact.

(* non-vacuity: the generated histories used by the correspondence check satisfy wf_msg step by
   step and contain data records, variable-length and enterprise fields *)
Fixpoint hist_wf (st : store) (ms : list amsg) : bool :=
  match ms with
  | [] => true
  | m :: r => wf_msg st m && hist_wf (expected_store st m) r
  end.
Definition has_data (m : amsg) : bool :=
  existsb (fun s => match s with AData _ _ (_ :: _) _ => true | _ => false end) (aSets m).
Example c03_nonvacuous :
  let hs := map (gcase gen_nf_case 1) [0; 1; 4; 5; 6; 8; 9; 10] in
  forallb (hist_wf []) hs = true /\ existsb (existsb has_data) hs = true.
Proof. vm_compute. split; reflexivity. Qed.

(* known finding v9-count-below-sets: with the RFC's well-formedness alone the statement is
   false of the faithful model -- the decoder stops after Count flow sets, Count counts records *)
Example c03_v9_count_refuted :
  exists st m, wf_msg_rfc st m = true /\
    decode_nf st (encode_nf m) <> Ok (expected_pkt m, false, expected_store st m).
Proof.
  pose (ms := gcase gen_v9_lowcount 1 0).
  exists (expected_store [] (nth 0 ms {| aVer := 0; aHdr := []; aSets := [] |})),
         (nth 1 ms {| aVer := 0; aHdr := []; aSets := [] |}).
  vm_compute. split; [reflexivity|discriminate].
Qed.

(* the header widths the model decodes NetFlow v9 and IPFIX messages with are the field widths of the Go structs
   NFv9Packet / IPFIXPacket (regenerated from decoders/netflow on every build), and the word the template and sampling
   keys call "domain" is SourceId / ObservationDomainId *)
From GF Require Import Spec.DocCheck2.
Theorem c03_header_layout_is_the_go_struct : nf_layout_ok = true.
Proof. vm_compute. reflexivity. Qed.
Print Assumptions c03_header_layout_is_the_go_struct.
