(* C20 -- Kafka output: all messages sent before Close reach the broker, keyed.
   PARTIAL: the theorems are relative to the stated contract of sarama's AsyncProducer, which is
   not modelled; the check runs the real driver against sarama's in-process MockBroker. *)
From Coq Require Import List NArith Bool Permutation.
From GF Require Import Base.Bytes Model.Kafka.
Import ListNotations.

(* what the driver hands to the producer is, in order, exactly one message per Send with the
   configured topic and the given key and value bytes *)
Theorem c20_inputs_exact : forall topic kvs,
  ksends topic kvs = map (fun kv => {| kTopic := topic; kKey := fst kv; kValue := snd kv |}) kvs.
Proof.
  intros topic kvs. unfold ksends.
  assert (G : forall acc, fold_left (fun a kv => ksend topic a (fst kv) (snd kv)) kvs acc
                          = acc ++ map (fun kv => {| kTopic := topic; kKey := fst kv; kValue := snd kv |}) kvs).
  { induction kvs as [|kv r IH]; intros acc; cbn [fold_left map]; [rewrite app_nil_r; reflexivity|].
    rewrite IH. unfold ksend. rewrite <- app_assoc. reflexivity. }
  rewrite G. reflexivity.
Qed.
Print Assumptions c20_inputs_exact.

Section Contract.
  (* sarama's contract, fault-free broker: Close returns after every accepted message has been
     acknowledged; what the broker holds is a permutation of what was accepted; with the hash
     partitioner the partition is a function of the key bytes *)
  Variable delivered : list kmsg -> list (nat * kmsg).       (* (partition, message) *)
  Variable partition_of_key : bytes -> nat.
  Hypothesis close_flushes : forall inputs, Permutation (map snd (delivered inputs)) inputs.
  Hypothesis hash_partitioner : forall inputs p m, In (p, m) (delivered inputs) -> p = partition_of_key (kKey m).

  Theorem c20_delivered : forall topic kvs,
    Permutation (map snd (delivered (ksends topic kvs)))
                (map (fun kv => {| kTopic := topic; kKey := fst kv; kValue := snd kv |}) kvs).
  Proof. intros. rewrite <- c20_inputs_exact. apply close_flushes. Qed.

  Theorem c20_same_key_same_partition : forall inputs p1 m1 p2 m2,
    In (p1, m1) (delivered inputs) -> In (p2, m2) (delivered inputs) -> kKey m1 = kKey m2 -> p1 = p2.
  Proof. intros inputs p1 m1 p2 m2 H1 H2 E. rewrite (hash_partitioner _ _ _ H1), (hash_partitioner _ _ _ H2), E. reflexivity. Qed.
End Contract.
Print Assumptions c20_delivered.
Print Assumptions c20_same_key_same_partition.

(* the forwarder hands on every producer error that arrives while a reader is waiting: a draining
   reader that is ready for at least one of the errors sees at least one *)
Theorem c20_error_reaches_listener : forall errs e,
  In (e, true) errs -> In e (forwarded errs).
Proof.
  induction errs as [|[x r] t IH]; intros e H; [contradiction|].
  cbn [forwarded]. destruct H as [H|H].
  - inversion H; subst. left. reflexivity.
  - destruct r; [right|]; apply IH; exact H.
Qed.
Print Assumptions c20_error_reaches_listener.
