(* C09 -- sFlow samples map to the flow message as documented.
   Statements only; proofs in Proofs/PacketP.v. *)
From Coq Require Import List NArith Bool.
From GF Require Import Base.Res Base.Bytes Model.Msg Model.Packet Model.SFlow Model.ProdSF Proofs.PacketP.
Import ListNotations.
Open Scope N_scope.

(* one message per flow / expanded flow sample, none for counter or drop samples *)
Theorem c09_one_per_flow_sample : forall cfg tr p ms,
  produce_sf cfg tr p = Ok ms -> length ms = length (flow_samples p).
Proof. exact produce_sf_count. Qed.
Print Assumptions c09_one_per_flow_sample.

(* a raw header of another header protocol only sets bytes = sampled frame length *)
Theorem c09_other_protocols : forall cfg m r,
  rKind r = KHeader -> nth 0 (rVals r) 0 <> 1 ->
  sf_record cfg m r = Ok (msetI m cBytes (nth 1 (rVals r) 0)).
Proof. exact sf_record_other_protocol. Qed.
Print Assumptions c09_other_protocols.

(* extended gateway: destination AS = last AS of the path, next-hop AS = first; with an empty
   path the router's AS; source AS falls back to the router's AS *)
Theorem c09_gateway_as : forall cfg m r,
  rKind r = KGateway ->
  exists m', sf_record cfg m r = Ok m' /\
    mgetI m' cSrcAs = (if 0 <? nth 2 (rVals r) 0 then nth 2 (rVals r) 0 else nth 1 (rVals r) 0) /\
    mgetI m' cDstAs = match nth 0 (rLists r) [] with [] => nth 1 (rVals r) 0 | p => last p 0 end /\
    (forall a l, nth 0 (rLists r) [] = a :: l -> mgetI m' cNextHopAs = a).
Proof. exact sf_gateway_as. Qed.
Print Assumptions c09_gateway_as.
