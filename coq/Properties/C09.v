(* C09 -- sFlow samples map to the flow message as documented.
   Statements only; proofs in Proofs/PacketP.v, Proofs/SFlowE2E.v (composition with the frame dissector). *)
From Coq Require Import List NArith Bool.
From GF Require Import Base.Res Base.Bytes Model.Msg Model.Packet Model.SFlow Model.ProdSF Spec.Frame Spec.EncSFlow Proofs.PacketP Proofs.FrameP Proofs.SFlowE2E.
Import ListNotations.
Open Scope N_scope.

(* one message per flow / expanded flow sample, none for counter or drop samples *)
Theorem c09_one_per_flow_sample : forall cfg tr p ms,
  produce_sf cfg tr p = Ok ms -> length ms = length (flow_samples p).
Proof. exact produce_sf_count. Qed.
Print Assumptions c09_one_per_flow_sample.

(* a raw header of another header protocol only sets bytes = sampled frame length *)
Theorem c09_other_protocols : forall cfg m r,
  rKind r = KHeader -> nth 0 (rVals r) 0 <> 1 ->
  sf_record cfg m r = Ok (msetI m cBytes (nth 1 (rVals r) 0)).
Proof. exact sf_record_other_protocol. Qed.
Print Assumptions c09_other_protocols.

(* extended gateway: destination AS = last AS of the path, next-hop AS = first; with an empty
   path the router's AS; source AS falls back to the router's AS *)
Theorem c09_gateway_as : forall cfg m r,
  rKind r = KGateway ->
  exists m', sf_record cfg m r = Ok m' /\
    mgetI m' cSrcAs = (if 0 <? nth 2 (rVals r) 0 then nth 2 (rVals r) 0 else nth 1 (rVals r) 0) /\
    mgetI m' cDstAs = match nth 0 (rLists r) [] with [] => nth 1 (rVals r) 0 | p => last p 0 end /\
    (forall a l, nth 0 (rLists r) [] = a :: l -> mgetI m' cNextHopAs = a).
Proof. exact sf_gateway_as. Qed.
Print Assumptions c09_gateway_as.

(* THE DOCUMENTED MAPPING of a flow sample with a raw Ethernet header, end to end: for EVERY well-formed frame f
   (Spec/Frame.v: VLANs, MPLS, IPv4/IPv6 with extension headers, tunnels, TCP/UDP/ICMP) sampled in a flow
   sample with ANY sampling rate, interfaces and frame length, the message has: type SFLOW_5, the sample's
   sampling_rate, in_if, out_if, packets = 1, bytes = the sampled frame's length, and on top of these exactly
   the columns of the dissected frame (MACs, ethertype, VLAN, MPLS, addresses, protocol, TOS, TTL, flow label,
   fragment fields, ports, TCP flags, ICMP type/code, SRv6 segments, layer stack and sizes) -- `framed`.
   The record's XDR padding behind the captured bytes is not part of the header (c09_header_is_the_captured_bytes). *)
Theorem c09_raw_header_flow_sample : forall f hdr rate pool drops inif outif flen stripped,
  wf_frame f = true ->
  exists m,
    convert_sf empty_pcfg {| sKind := SFlowS; sHdr := hdr; sVals := [rate; pool; drops; inif; outif; 1];
                             sRecs := [mk_header 1 flen stripped (encode_frame f)] |} = Ok m /\
    meq m (framed (sample_base rate inif outif flen) f).
Proof. exact raw_header_flow_sample. Qed.
Print Assumptions c09_raw_header_flow_sample.

(* expanded flow samples: the interfaces are the VALUE words of the expanded (format, value) pairs *)
Theorem c09_raw_header_expanded_sample : forall f hdr rate pool drops infmt inif outfmt outif flen stripped,
  wf_frame f = true ->
  exists m,
    convert_sf empty_pcfg {| sKind := SExpFlowS; sHdr := hdr; sVals := [rate; pool; drops; infmt; inif; outfmt; outif; 1];
                             sRecs := [mk_header 1 flen stripped (encode_frame f)] |} = Ok m /\
    meq m (framed (sample_base rate inif outif flen) f).
Proof. exact raw_header_expanded_sample. Qed.
Print Assumptions c09_raw_header_expanded_sample.

(* ... and the raw header captured at ANY length n (sFlow agents send the first 64 / 128 / 256 bytes of a frame): for
   EVERY well-formed frame and EVERY n the sample converts without error; every column other than the ethertype, the
   VLAN id and the two layer lists carries the value the COMPLETE frame would give it (framed), or is as the sample
   itself set it (the frame's columns: unset), or -- MPLS labels / TTLs, SRv6 segments of a stack / list the capture
   cuts through -- is a prefix of the complete list; the layer stack is a prefix of the frame's layers.  Composition of
   the sFlow producer with c10_any_capture_length (Proofs/FrameAnyCutP.v any_cut_on, from the sample's base message).
   True of the implementation since fix 5d701ef: the dissector gets the header_length bytes, not the XDR padding. *)
From GF Require Import Proofs.FrameCutP Proofs.FrameAnyCutP Proofs.SFlowRT.
Theorem c09_raw_header_any_capture : forall f n hdr rate pool drops inif outif flen stripped,
  wf_frame f = true ->
  exists m,
    convert_sf empty_pcfg {| sKind := SFlowS; sHdr := hdr; sVals := [rate; pool; drops; inif; outif; 1];
                             sRecs := [mk_header 1 flen stripped (firstn n (encode_frame f))] |} = Ok m /\
    (forall k, k <> cEtype -> k <> cVlanId -> k <> cLayerStack -> k <> cLayerSize ->
       let a := alookup (cols m) k in
       a = alookup (cols (framed (sample_base rate inif outif flen) f)) k \/
       a = alookup (cols (sample_base rate inif outif flen)) k \/
       exists va vr, a = Some va /\ alookup (cols (framed (sample_base rate inif outif flen) f)) k = Some vr /\ vprefix va vr) /\
    (exists k, mgetLI m cLayerStack = firstn k (map (fun x => layer_code (fst x)) (frame_layers f)) /\
               length (mgetLI m cLayerSize) = length (mgetLI m cLayerStack) /\
               (* all sizes but possibly the last one -- the header the capture ends in -- are the headers' true sizes *)
               firstn (k - 1) (mgetLI m cLayerSize) = firstn (k - 1) (map snd (frame_layers f))) /\
    (* every column written by a header that lies completely inside the capture has the complete frame's value *)
    (forall j k, (j <= length (frame_chain f))%nat ->
       (length (concat (map lhdr (firstn j (frame_chain f)))) <= length (firstn n (encode_frame f)))%nat ->
       In k (fkeys (applied false (firstn j (frame_chain f)))) ->
       alookup (cols m) k = alookup (cols (framed (sample_base rate inif outif flen) f)) k) /\
    (* the ethertype and the VLAN id: as the sample left them (unset) or a true ethertype field / VLAN tag of the frame *)
    tags_ok (sample_base rate inif outif flen) m f.
Proof. exact raw_header_cut_flow_sample. Qed.
Print Assumptions c09_raw_header_any_capture.

Theorem c09_raw_header_any_capture_expanded : forall f n hdr rate pool drops infmt inif outfmt outif flen stripped,
  wf_frame f = true ->
  exists m,
    convert_sf empty_pcfg {| sKind := SExpFlowS; sHdr := hdr; sVals := [rate; pool; drops; infmt; inif; outfmt; outif; 1];
                             sRecs := [mk_header 1 flen stripped (firstn n (encode_frame f))] |} = Ok m /\
    cols_ok (sample_base rate inif outif flen) m f /\ layers_ok m f /\
    complete_ok (sample_base rate inif outif flen) m f (length (firstn n (encode_frame f))) /\
    tags_ok (sample_base rate inif outif flen) m f.
Proof. exact raw_header_cut_expanded_sample. Qed.
Print Assumptions c09_raw_header_any_capture_expanded.

(* the header the producer dissects is the header_length bytes of the record, whatever padding follows them on the wire *)
Theorem c09_header_is_the_captured_bytes : forall proto flen stripped captured,
  lenN captured < 4294967000 -> proto < 4294967296 -> flen < 4294967296 -> stripped < 4294967296 ->
  let r := mk_header proto flen stripped captured in
  dec_flow_record 1 (rLen r) (enc_rec_body r) = Ok r /\ rBlobs r = [captured].
Proof. exact header_record_roundtrip. Qed.
Print Assumptions c09_header_is_the_captured_bytes.

(* THE SFLOW COLUMN OF THE DOCUMENTATION TABLE IS IMPLEMENTED.  Spec/DocTable.v doc_sflow (regenerated from
   docs/protocols.md on every build): the sFlow cell of every row as written.  For EVERY row
   (Spec/DocCheck2.v sflow_cell_ok; a cell in words the check does not know fails):
     "From ExtendedSwitch | ExtendedRouter | ExtendedGateway" -> a flow sample carrying only that record sets the
        column, and a sample carrying only one of the other two does not;
     "Included" -> the column is set from the sampled header of one of five probe frames (VLAN+IPv4+TCP, IPv6+UDP,
        IPv4+ICMP, MPLS+IPv4+UDP, IPv4 fragment), or from the sample / datagram (rate, sequence number, interfaces);
     "Agent IP", "=TimeReceived", "Length of sample", "=1", "SFLOW_5" -> exactly that value.
   The same probe datagrams are sent through the real SFlowPipe and compared with the model on every run. *)
From GF Require Import Spec.DocCheck2.
Theorem c09_doc_sflow_column_implemented : sflow_doc_failures = [].
Proof. vm_compute. reflexivity. Qed.
Print Assumptions c09_doc_sflow_column_implemented.
