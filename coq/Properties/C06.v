(* C06 -- templates are scoped per exporter, version, domain and id; latest wins.
   Statements only; proofs in Proofs/PipeP.v and Proofs/RefineP.v. *)
From Coq Require Import String List NArith Bool.
From GF Require Import Base.Res Base.Bytes Model.Msg Model.NF Model.Packet Model.ProdNF Model.Pipe Spec.RefStore Spec.GenPipe Base.Gen Proofs.PipeP Proofs.RefineP.
Import ListNotations.
Open Scope N_scope.

(* THE PROPERTY, as a refinement: on EVERY history of datagrams (bytes < 256) from ANY exporters, the
   NetFlow pipe -- per-exporter template systems, packed 64-bit key, templates learned before a failing
   set kept -- shows exactly what the reference pipe of Spec/RefStore.v shows, whose template store is
   ONE finite map keyed by the tuple (exporter, version, observation domain, template id) in which a
   lookup returns the latest binding of exactly that tuple (c06_flat_map_is_a_map).  Per-datagram error
   class and every produced message are compared; 'template not found', latest-wins, scoping and
   isolation are all consequences. *)
Theorem c06_refines_flat_map : forall cfg h,
  Forall (fun x => wfb (snd x)) h -> nf_run cfg init_pstate h = rnf_run cfg rinit_pstate h.
Proof. exact nf_run_refines. Qed.
Print Assumptions c06_refines_flat_map.

Theorem c06_flat_map_is_a_map : forall s k t k',
  rget (radd s k t) k' = if rkey_eqb k k' then Some t else rget s k'.
Proof. exact rget_radd. Qed.
Theorem c06_flat_key_exact : forall k k', rkey_eqb k k' = true <-> k = k'.
Proof. exact rkey_eqb_eq. Qed.
Print Assumptions c06_flat_key_exact.

(* the 64-bit store key is injective on (version, domain, id) over the wire ranges *)
Theorem c06_key_injective : forall v d i v' d' i',
  d < 4294967296 -> i < 65536 -> d' < 4294967296 -> i' < 65536 ->
  tkey v d i = tkey v' d' i' -> v = v' /\ d = d' /\ i = i'.
Proof. exact tkey_injective. Qed.
Print Assumptions c06_key_injective.

(* latest wins: after a template set, the template of id i is the LAST record announcing i
   (also within one set), else what the store held *)
Theorem c06_latest_wins : forall rs st v d i,
  store_get (add_trecs st v d rs) (tkey v d i) =
  match last_trec rs i with Some r => Some (TplData r) | None => store_get st (tkey v d i) end.
Proof. exact add_trecs_get. Qed.
Print Assumptions c06_latest_wins.

(* ... and no template of another version or domain is touched *)
Theorem c06_other_scope_untouched : forall rs st v d v' d' i',
  Forall (fun r => tId r < 65536) rs -> d < 4294967296 -> d' < 4294967296 -> i' < 65536 ->
  (v, d) <> (v', d') ->
  store_get (add_trecs st v d rs) (tkey v' d' i') = store_get st (tkey v' d' i').
Proof. exact add_trecs_other. Qed.
Print Assumptions c06_other_scope_untouched.

(* a re-announced template is in force from the next set of the same message on: the rest of
   the message is decoded over the store the set left behind *)
Theorem c06_next_set_sees_it : forall fuel st dom size ver start i d fs tnf st1 d1,
  (((i <? size) && (ver =? 9)) || ((N.of_nat (start - length d) mod 65536 <? size) && (ver =? 10)))
    && negb (Nat.eqb (length d) 0) = true ->
  dec_flowset st dom ver d = Ok (fs, tnf, st1, d1) ->
  dec_common (S fuel) st dom size ver start i d =
  (let* (fss, tnf', st2) := dec_common fuel st1 dom size ver start (i + 1) d1 in
   Ok (fs :: fss, tnf || tnf', st2)).
Proof. exact dec_common_step. Qed.
Print Assumptions c06_next_set_sees_it.

(* unknown template: 'template not found', the set stays raw (no flow of its own), the store is
   unchanged and decoding continues with the bytes after the set *)
Theorem c06_not_found : forall st dom ver d id len d2,
  rd 2 d = Ok (id, skipn 2 d) -> rd 2 (skipn 2 d) = Ok (len, d2) ->
  256 <= id -> 4 <= len -> store_get st (tkey ver dom id) = None ->
  dec_flowset st dom ver d =
  Ok (FSRaw id len (fst (next (N.to_nat (len - 4)) d2)), true, st, snd (next (N.to_nat (len - 4)) d2)).
Proof. exact dec_flowset_not_found. Qed.
Print Assumptions c06_not_found.

(* EVERY datagram (malformed ones included) of exporter e leaves every other exporter's
   templates exactly as they were *)
Theorem c06_exporter_isolation : forall cfg st e tr d st' o ms k',
  nf_step cfg st e tr d = Ok (st', o, ms) -> k' <> exp_id e ->
  tstores_get (psT st') k' = tstores_get (psT st) k'.
Proof. exact nf_step_isolation. Qed.
Print Assumptions c06_exporter_isolation.

(* distinct source addresses have distinct identities (the port is added on top) *)
Theorem c06_addr_id_injective : forall a b,
  wfb a -> wfb b -> (length a <= 16)%nat -> (length b <= 16)%nat -> addr_id a = addr_id b -> a = b.
Proof. exact addr_id_injective. Qed.
Print Assumptions c06_addr_id_injective.

(* non-vacuity: two domains, same id, different layouts, then a redefinition *)
Definition t1 := {| tId := 256; tCount := 1; tFields := [{| fPenP := false; fType := 1; fLen := 4; fPen := 0 |}] |}.
Definition t2 := {| tId := 256; tCount := 1; tFields := [{| fPenP := false; fType := 2; fLen := 8; fPen := 0 |}] |}.
Example c06_nonvacuous :
  let st := add_trecs (add_trecs [] 10 1 [t1]) 10 2 [t2] in
  store_get st (tkey 10 1 256) = Some (TplData t1) /\ store_get st (tkey 10 2 256) = Some (TplData t2) /\
  store_get (add_trecs st 10 1 [t2; t1; t2]) (tkey 10 1 256) = Some (TplData t2) /\
  store_get st (tkey 9 1 256) = None.
Proof. vm_compute. repeat split. Qed.

(* non-vacuity of the refinement: a generated history (five exporters, re-announcements, unknown
   templates) meets the hypothesis and makes the pipe decode records *)
Example c06_refinement_nonvacuous :
  let h := gcase gen_pipe_case 7 3 in
  forallb (fun x => wfbb (snd x)) h = true /\ (2 <=? lenN h) = true /\
  existsb (fun t => match t with TS s => String.eqb s "m"%string | _ => false end) (nf_run empty_prodcfg init_pstate h) = true /\
  toks_eqb (nf_run empty_prodcfg init_pstate h) (rnf_run empty_prodcfg rinit_pstate h) = true.
Proof. vm_compute. repeat split. Qed.
