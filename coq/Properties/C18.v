(* C18 -- receiver start/stop never deadlocks and stopping loses nothing accepted.
   Statements only; proofs in Proofs/RecvStopP.v. *)
From Coq Require Import List NArith Bool.
From GF Require Import Model.First Model.RecvStop Proofs.RecvStopP.
Import ListNotations.

(* Start on a started receiver and Stop on a stopped one report an error and change nothing; a
   stopped receiver can be started again *)
Theorem c18_errors :
  (forall st, fst (start_call st) = negb st) /\ (forall st, fst (stop_call st) = st) /\
  (start_call true = (false, true)) /\ (stop_call false = (false, false)) /\
  (snd (start_call (snd (stop_call true))) = true).
Proof. exact start_stop_errors. Qed.
Print Assumptions c18_errors.

(* Stop terminates under any scheduler: every action of Stop and of the workers that changes the
   state strictly lowers a natural-number measure ... *)
Theorem c18_stop_measure : forall cap s a,
  match a with SPush | SDeq _ | SFin _ => True | _ => False end ->
  sstep cap s a = s \/ smeasure (sstep cap s a) < smeasure s.
Proof. exact measure_decreases. Qed.
Print Assumptions c18_stop_measure.

(* ... and while some worker has not exited one of those actions is enabled (a busy worker's decoder
   call is assumed to return: decoders_not_blocked) *)
Theorem c18_stop_progress : forall cap s,
  balance s -> all_exited s = false ->
  exists a, match a with SPush | SDeq _ | SFin _ => True | _ => False end /\ sstep cap s a <> s.
Proof. exact stop_progress. Qed.
Print Assumptions c18_stop_progress.

Theorem c18_balance_invariant : forall cap s a, balance s -> balance (sstep cap s a).
Proof. exact balance_step. Qed.

(* every datagram that was queued before Stop was called has been decoded when Stop returns (all
   workers exited), for EVERY queue content, EVERY worker state, EVERY schedule, also with readers that
   still push packets behind the sentinels *)
Theorem c18_queued_decoded : forall cap q0 ws held sched,
  Forall (fun w => w <> WExited) ws -> ws <> [] ->
  let s := srun cap (sinit q0 ws held) sched in
  all_exited s = true -> forall id, In id q0 -> In id (sdecoded s).
Proof. exact queued_before_stop_decoded. Qed.
Print Assumptions c18_queued_decoded.

(* non-vacuity: two workers (one busy), three queued packets, a late reader: a schedule that lets Stop return *)
Example c18_nonvacuous :
  let s := srun 8 (sinit [1; 2; 3] [WIdle; WBusy 9] [7])
                [SPush; SDeq 0; SLateEnq; SFin 1; SPush; SDeq 1; SFin 0; SFin 1; SDeq 0; SFin 0; SDeq 1; SDeq 0; SFin 0; SDeq 0] in
  all_exited s = true /\ sdecoded s = [7; 3; 2; 1; 9].
Proof. vm_compute. split; reflexivity. Qed.

(* Stop waits for the readers too (one wait group).  Counting the datagrams readers still hold, EVERY action of Stop,
   the workers and the readers that changes the state lowers a natural-number measure, and a reader that holds a
   datagram can always leave through quit: Stop returns under any scheduler, whatever the queue size and mode *)
Theorem c18_stop_measure_with_readers : forall cap s a,
  sstep cap s a = s \/ smeasure2 (sstep cap s a) < smeasure2 s.
Proof. exact measure2_decreases. Qed.
Print Assumptions c18_stop_measure_with_readers.

Theorem c18_reader_can_leave : forall cap s, late s <> [] -> sstep cap s SLateLeave <> s.
Proof. exact reader_can_leave. Qed.
Print Assumptions c18_reader_can_leave.

(* what the way out through quit is for: with readers that do a plain send after quit closed (the variant of seed
   C18-5), one busy worker and three readers holding datagrams reach a state in which every worker has exited, a
   reader still holds a datagram, and NO action is enabled -- Stop waits for that reader for ever *)
Example c18_plain_send_refuted :
  let s := fold_left (sstep_plain_send 0) [SLateEnq; SFin 0; SDeq 0; SPush; SFin 0; SDeq 0; SLateEnq]
                     (sinit [] [WBusy 9] [1; 2; 3]) in
  all_exited s = true /\ late s = [3] /\
  sstep_plain_send 0 s SPush = s /\ sstep_plain_send 0 s (SDeq 0) = s /\ sstep_plain_send 0 s (SFin 0) = s /\
  sstep_plain_send 0 s SLateEnq = s /\ sstep_plain_send 0 s SLateLeave = s.
Proof. vm_compute. repeat split. Qed.

(* ---- the process level: SIGTERM makes the collector finish the datagrams it has taken in, flush and close ----------
   Model/Shutdown.v: main.go's sequence after the signal -- Stop every receiver, in order, then close the output -- with
   any number n of receivers, readers that go on taking datagrams in until their receiver is stopped, workers that hand
   queued datagrams to the output, all scheduled arbitrarily.  Stop returns when its receiver's queue is drained
   (c18_queued_decoded).  For EVERY n and EVERY schedule: no datagram that was taken in is handed to a closed output,
   and once main has run to its end the output is closed, every queue is empty and exactly the datagrams taken in have
   been written.  Tied to the code by the end-to-end runs of the cmd/goflow2 binary (props/c18.py: N records in, SIGTERM
   -- also with two listeners and a backlog held back by an unread FIFO --, N records out, exit status 0). *)
From GF Require Import Model.Shutdown Proofs.ShutdownP.
Theorem c18_shutdown_loses_nothing : forall n es,
  let s := run (start n (main_prog n)) es in
  lost s = 0 /\ (prog s = [] -> outOpen s = false /\ written s = taken s /\ forall i, i < n -> rQueued (get (rs s) i) = 0).
Proof. exact shutdown_loses_nothing. Qed.
Print Assumptions c18_shutdown_loses_nothing.

(* non-vacuity: three receivers, datagrams taken in before and after the signal, main runs to its end: 4 in, 4 out *)
Example c18_shutdown_nonvacuous :
  let s := run (start 3 (main_prog 3))
               [EIntake 0; EIntake 2; EMain; EIntake 1; EIntake 0; EWork 0; EMain; EIntake 2; EMain; EWork 1; EMain; EMain;
                EWork 2; EWork 2; EMain; EMain; EIntake 1] in
  prog s = [] /\ taken s = 4 /\ written s = 4 /\ lost s = 0.
Proof. vm_compute. repeat split. Qed.

(* the protocol of seed C18-7 -- the receivers stopped through a closure over the loop variable, so that the LAST
   receiver gets every Stop call -- refuted: two receivers, one datagram taken in by the first, the output closed
   before its worker runs: the record is lost *)
Example c18_closure_shutdown_refuted :
  lost (run (start 2 (closure_prog 2)) [EIntake 0; EMain; EMain; EMain; EMain; EWork 0]) = 1.
Proof. exact closure_prog_loses. Qed.

(* "... and exit": from EVERY state the collector can reach after SIGTERM (any number of receivers, any history of
   readers, workers and main), there is a continuation -- the workers drain their queues -- on which the main goroutine
   runs to its end: Stop is never stuck for good, the output gets closed (and by c18_shutdown_loses_nothing with
   everything written that was taken in) *)
Theorem c18_shutdown_can_finish : forall n es, exists es', prog (run (run (start n (main_prog n)) es) es') = [].
Proof. exact shutdown_can_finish. Qed.
Print Assumptions c18_shutdown_can_finish.
