(* C15 -- parallel workers are race-free and equivalent to sequential processing.
   Statements only; proofs in Proofs/WorkersP.v.
   PARTIAL: the theorems are about whole-datagram steps over the shared stores (what the locks make
   atomic); data-race freedom itself is the Go race detector's observation in the check. *)
From Coq Require Import List NArith Bool Permutation.
From GF Require Import Base.Res Base.Bytes Model.Msg Model.NF Model.Packet Model.ProdNF Model.Pipe
     Proofs.PoolP Proofs.WorkersP.
Import ListNotations.
Open Scope N_scope.

(* whenever the templates and sampling announcements were processed before (every datagram of the
   workload preserves every exporter's view), ANY order in which workers take the datagrams gives,
   datagram by datagram, the output of processing it alone against the prologue state *)
Theorem c15_equal_sequential : forall cfg st0 xs,
  Forall (preserving cfg st0) xs ->
  forall st, view_eq st st0 -> run_order cfg st xs = map (outd cfg st0) xs.
Proof. exact workers_equal_sequential. Qed.
Print Assumptions c15_equal_sequential.

(* hence every schedule delivers the same multiset, each datagram's messages kept together in order *)
Theorem c15_any_schedule : forall cfg st0 xs ys,
  Forall (preserving cfg st0) xs -> Permutation xs ys ->
  Permutation (run_order cfg st0 xs) (run_order cfg st0 ys).
Proof. exact any_schedule. Qed.
Print Assumptions c15_any_schedule.

(* non-vacuity: NetFlow v5 datagrams are view-preserving in every state *)
Theorem c15_v5_preserving : forall cfg st0 e tr d, rd 2 d = Ok (5, skipn 2 d) -> preserving cfg st0 (e, tr, d).
Proof. exact v5_preserving. Qed.
Print Assumptions c15_v5_preserving.
