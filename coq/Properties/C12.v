(* C12 -- messages do not depend on what was processed before (no leakage via reuse).
   Statements only; proofs in Proofs/PoolP.v. *)
From Coq Require Import List NArith Bool.
From GF Require Import Base.Res Base.Bytes Model.Msg Model.NF Model.Packet Model.ProdNF Model.Pipe Model.Pool
     Proofs.PoolP.
Import ListNotations.
Open Scope N_scope.

(* whatever message the pool hands back -- any columns, repeated fields, custom fields of any
   earlier flow -- the converted message is the same *)
Theorem c12_supply_independent : forall fmt cfg ver base up p p' r,
  convert_nf_pooled fmt cfg ver base up p r = convert_nf_pooled fmt cfg ver base up p' r.
Proof. exact convert_pooled_supply. Qed.
Print Assumptions c12_supply_independent.

(* ... and it is the conversion that starts from an empty message *)
Theorem c12_equals_fresh : forall fmt cfg ver base up p r,
  convert_nf_pooled fmt cfg ver base up p r =
  (let* m := convert_nf cfg ver base up r in Ok {| pMsg := m; pFormatter := fmt |}).
Proof. exact convert_pooled_fresh. Qed.
Print Assumptions c12_equals_fresh.

(* the outputs of a datagram are a function of the datagram, the receive metadata, the
   configuration and the exporter's own template and sampling state: two pipe states with the same
   view for the exporter give the same error class and the same messages *)
Theorem c12_view_only : forall cfg st st' e tr d,
  same_view e st st' -> outputs (nf_step cfg st e tr d) = outputs (nf_step cfg st' e tr d).
Proof. exact nf_step_view. Qed.
Print Assumptions c12_view_only.

(* EVERY prefix history of datagrams (valid, malformed, failing half-way) from other source
   addresses leaves the outputs of the datagram exactly as without the prefix *)
Theorem c12_history_independent : forall cfg e tr d h st,
  Forall (fun x => exp_id (fst (fst x)) <> exp_id e /\ addr_id (eAddr (fst (fst x))) <> addr_id (eAddr e)) h ->
  outputs (nf_step cfg (run_state cfg st h) e tr d) = outputs (nf_step cfg st e tr d).
Proof. exact history_independent. Qed.
Print Assumptions c12_history_independent.
