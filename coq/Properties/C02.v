(* C02 -- memory per datagram is bounded by its size, not by the counts it claims.
   Statements only; proofs in Proofs/AllocP.v, Proofs/PipeP.v.
   PARTIAL: the theorems bound the number of slots / records the decoders pre-size or build (the
   ghost quantity); the bytes the Go runtime really allocates are measured by the check. *)
From Coq Require Import Arith List NArith Bool.
From GF Require Import Base.Res Base.Bytes Model.NF Model.NFv5 Model.SFlow Proofs.AllocP Proofs.PipeP.
Import ListNotations.
Open Scope N_scope.

(* sFlow: EVERY byte string that decodes pre-sizes at most 1000 + 1000 * (length / 20) sample and
   record slots -- a function of the datagram's length only, whatever SamplesCount, FlowRecordsCount
   (all four sample kinds) and CounterRecordsCount claim *)
Theorem c02_sflow_slots : forall d p, decode_sf d = Ok p -> (sf_slots p <= 1000 + 1000 * (length d / 20))%nat.
Proof. exact decode_sf_slots. Qed.
Print Assumptions c02_sflow_slots.

Theorem c02_sflow_budget : forall d p, lenN d <= 9000 -> decode_sf d = Ok p -> 24 * N.of_nat (sf_slots p) <= 10824000.
Proof. exact decode_sf_budget. Qed.
Print Assumptions c02_sflow_budget.

(* a sample's record slice is capped at 1000 slots and the sample occupies at least 12 bytes *)
Theorem c02_sample_cap : forall fmt len d s,
  dec_sample fmt len d = Ok s -> (length (sRecs s) <= 1000)%nat /\ (12 <= length d)%nat.
Proof. exact dec_sample_cap. Qed.
Print Assumptions c02_sample_cap.

(* NetFlow v9 / IPFIX: records cut from a data set are physically present: records * minimal record
   size <= bytes of the set, for EVERY template and EVERY body (set length fields cannot inflate it) *)
Theorem c02_nf_records_present : forall fs d rs,
  dec_data_set fs d = Ok rs -> (length rs * template_size fs <= length d)%nat /\ (rs <> [] -> 0 < template_size fs)%nat.
Proof. exact dec_data_set_bound. Qed.
Print Assumptions c02_nf_records_present.

(* NetFlow v5: the record slice is sized by a 16-bit count (at most 65535 * 48 bytes, about 3 MB) and
   holds at most that many records *)
Theorem c02_v5_slots : forall d h rs, wfb d -> decode_v5 d = Ok (h, rs) -> v5_count h < 65536 /\ lenN rs <= v5_count h.
Proof. exact decode_v5_slots. Qed.
Print Assumptions c02_v5_slots.

(* the defect of the pinned tree: an expanded flow sample had no cap (2^32-1 claimed records were
   pre-sized).  With the cap of the repaired decoder such a sample is rejected: *)
Example c02_expanded_cap :
  dec_sample 3 44 (enc_be 4 1 ++ enc_be 4 0 ++ enc_be 4 1 ++ concat (map (enc_be 4) [1;1;0;0;1;0;2]) ++ enc_be 4 4294967295)
  = Err ETooMany.
Proof. vm_compute. reflexivity. Qed.
