(* C02 -- memory per datagram is bounded by its size, not by the counts it claims.
   Statements only; proofs in Proofs/AllocP.v, Proofs/PipeP.v.
   c02_budget states the property's own formula on the ghost allocation estimate of Spec/Ghost.v (an upper
   estimate of the bytes one DecodeFlow call allocates, computed along the decoders' path; the check compares
   it with runtime.MemStats.TotalAlloc on every input it sends: measured <= estimate + SLACK).
   PARTIAL: the bytes the Go runtime really allocates (GC, allocator rounding, runtime internals) are
   measured, not modelled; the constants of the estimate are calibrated, not derived. *)
From Coq Require Import Arith List NArith Bool.
From GF Require Import Base.Res Base.Bytes Model.NF Model.NFv5 Model.SFlow Model.Pipe Spec.Ghost Proofs.AllocP Proofs.PipeP Proofs.GhostP.
Import ListNotations.
Open Scope N_scope.

(* sFlow: EVERY byte string that decodes pre-sizes at most 1000 + 1000 * (length / 20) sample and
   record slots -- a function of the datagram's length only, whatever SamplesCount, FlowRecordsCount
   (all four sample kinds) and CounterRecordsCount claim *)
Theorem c02_sflow_slots : forall d p, decode_sf d = Ok p -> (sf_slots p <= 1000 + 1000 * (length d / 20))%nat.
Proof. exact decode_sf_slots. Qed.
Print Assumptions c02_sflow_slots.

Theorem c02_sflow_budget : forall d p, lenN d <= 9000 -> decode_sf d = Ok p -> 24 * N.of_nat (sf_slots p) <= 10824000.
Proof. exact decode_sf_budget. Qed.
Print Assumptions c02_sflow_budget.

(* a sample's record slice is capped at 1000 slots and the sample occupies at least 12 bytes *)
Theorem c02_sample_cap : forall fmt len d s,
  dec_sample fmt len d = Ok s -> (length (sRecs s) <= 1000)%nat /\ (12 <= length d)%nat.
Proof. exact dec_sample_cap. Qed.
Print Assumptions c02_sample_cap.

(* NetFlow v9 / IPFIX: records cut from a data set are physically present: records * minimal record
   size <= bytes of the set, for EVERY template and EVERY body (set length fields cannot inflate it) *)
Theorem c02_nf_records_present : forall fs d rs,
  dec_data_set fs d = Ok rs -> (length rs * template_size fs <= length d)%nat /\ (rs <> [] -> 0 < template_size fs)%nat.
Proof. exact dec_data_set_bound. Qed.
Print Assumptions c02_nf_records_present.

(* NetFlow v5: the record slice is sized by a 16-bit count (at most 65535 * 48 bytes, about 3 MB) and
   holds at most that many records *)
Theorem c02_v5_slots : forall d h rs, wfb d -> decode_v5 d = Ok (h, rs) -> v5_count h < 65536 /\ lenN rs <= v5_count h.
Proof. exact decode_v5_slots. Qed.
Print Assumptions c02_v5_slots.

(* the defect of the pinned tree: an expanded flow sample had no cap (2^32-1 claimed records were
   pre-sized).  With the cap of the repaired decoder such a sample is rejected: *)
Example c02_expanded_cap :
  dec_sample 3 44 (enc_be 4 1 ++ enc_be 4 0 ++ enc_be 4 1 ++ concat (map (enc_be 4) [1;1;0;0;1;0;2]) ++ enc_be 4 4294967295)
  = Err ETooMany.
Proof. vm_compute. reflexivity. Qed.

(* ---- THE PROPERTY's formula, on the ghost estimate ---------------------------------------------------
   For EVERY pipe (sflow://, netflow://, flow://), EVERY pipe state (any template stores, built by any
   history), EVERY exporter and EVERY byte string of at most 9000 bytes: the estimate c of what decoding
   the datagram and converting it to flow messages allocates, plus the tolerance SLACK (1 MiB) of the
   measured comparison, is at most 16 MiB + 256 x length x (1 + w), w = the number of fields of the widest
   template the datagram references.  No hypothesis on any count or length field inside d. *)
Theorem c02_budget : forall k st e d c w,
  wfb d -> lenN d <= 9000 -> gh_pipe k st e d = (c, w) ->
  c + SLACK <= 16 * 1048576 + 256 * lenN d * (1 + w).
Proof. exact gh_pipe_property. Qed.
Print Assumptions c02_budget.

(* the NetFlow v9 / IPFIX part without the 9000-byte bound: at most C_REC + C_FLD x width per byte of the
   message, plus the one set at which decoding may fail *)
Theorem c02_nf_per_byte : forall st ver d c w,
  gh_nf_body st ver d = (c, w) -> c <= lenN d * (C_REC + C_FLD * w) + T_ERR.
Proof. exact gh_nf_body_bound. Qed.
Print Assumptions c02_nf_per_byte.

(* no count, length or value INSIDE a flow set can raise the estimate: behind the four bytes of the set
   header only the number of bytes that follow matters *)
Theorem c02_set_content_irrelevant : forall st dom ver (hdr x x' : bytes),
  length hdr = 4%nat -> length x = length x' ->
  gh_set st dom ver (hdr ++ x) = gh_set st dom ver (hdr ++ x').
Proof. exact gh_set_content_irrelevant. Qed.
Print Assumptions c02_set_content_irrelevant.

(* w is the width of a template the datagram REFERENCES: one stored for the exporter under the set's own
   (version, domain, id) *)
Theorem c02_width_is_referenced : forall st dom ver d c w,
  gh_set st dom ver d = (c, w) -> w = 0 \/ exists id t, store_get st (tkey ver dom id) = Some t /\ w = tmpl_width t.
Proof. exact gh_set_width. Qed.
Print Assumptions c02_width_is_referenced.

(* non-vacuity: an IPFIX template of 3 fields (lengths 1, 0, 0), then a data set of 40 one-byte records:
   the estimate is 40 records' worth, inside the budget and far above the fixed cost *)
Example c02_budget_nonvacuous :
  let e := {| eAddr := [10;0;0;1]; ePort := 2000 |} in
  let t := [0;10; 0;36; 0;0;0;0; 0;0;0;1; 0;0;0;7;  0;2; 0;20; 1;0; 0;3; 0;1;0;1; 0;2;0;0; 0;3;0;0] in
  let dd := [0;10; 0;60; 0;0;0;0; 0;0;0;2; 0;0;0;7;  1;0; 0;44] ++ repeat 1 40 in
  let st := step_state init_pstate (pipe_step PKFlow ProdNF.empty_prodcfg init_pstate e 1 t) in
  gh_pipe PKFlow st e dd = (C_0 + C_SET + 40 * (C_REC + C_FLD * 3), 3) /\
  (fst (gh_pipe PKFlow st e dd) + SLACK <=? 16 * 1048576 + 256 * lenN dd * (1 + 3)) = true.
Proof. vm_compute. split; reflexivity. Qed.
