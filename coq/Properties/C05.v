(* C05 -- NetFlow v5 wire decoding is exact.  Statements only; proofs in Proofs/NFv5P.v. *)
From Coq Require Import List NArith.
From GF Require Import Base.Res Base.Bytes Base.Layout Model.NFv5 Spec.EncNFv5 Proofs.NFv5P.
Import ListNotations.
Open Scope N_scope.

(* decode(encode(H,R)) = (H,R) for every header and every record list (any length the
   16-bit count can express), count = number of records *)
Theorem c05_roundtrip : forall h rs,
  wf_v5_hdr h = true -> forallb wf_v5_rec rs = true -> v5_count h = N.of_nat (length rs) ->
  decode_v5 (encode_v5 h rs) = Ok (h, rs).
Proof. exact c05_roundtrip_l. Qed.
Print Assumptions c05_roundtrip.

(* k complete records followed by a partial one, ANY header count c: exactly min(c,k)
   records come out and they are the first ones encoded *)
Theorem c05_present_only : forall h rs part,
  wf_v5_hdr h = true -> forallb wf_v5_rec rs = true -> (length part < 48)%nat ->
  exists out, decode_v5 (encode_v5 h rs ++ part) = Ok (h, out) /\
              out = firstn (Nat.min (N.to_nat (v5_count h)) (length rs)) rs /\
              length out = Nat.min (N.to_nat (v5_count h)) (length rs).
Proof. exact c05_present_only_l. Qed.
Print Assumptions c05_present_only.

(* EVERY byte string: a successful decode returns only records whose 48 bytes are in the
   datagram, in place -- nothing is invented *)
Theorem c05_nothing_else : forall d h rs,
  wfb d -> decode_v5 d = Ok (h, rs) ->
  exists tail, d = encode_v5 h rs ++ tail /\ (length rs <= N.to_nat (v5_count h))%nat /\
               (48 * length rs + 24 <= length d)%nat.
Proof. exact c05_nothing_else_l. Qed.
Print Assumptions c05_nothing_else.

(* EVERY byte string: the decoder returns (value or error), never panics or spins *)
Theorem c05_total : forall d, returns (decode_v5 d).
Proof. exact decode_v5_total. Qed.
Print Assumptions c05_total.

(* non-vacuity: a concrete 2-record datagram meets the hypotheses and decodes to itself *)
Definition ex_h : list N := [2; 100000; 1700000000; 5; 77; 1; 2; 16484].
Definition ex_r1 : v5rec := [167772161; 167772162; 167772163; 1; 2; 10; 1500; 50; 60; 1234; 80; 0; 24; 6; 0; 65001; 65002; 24; 16; 0].
Definition ex_r2 : v5rec := [3232235777; 3232235778; 0; 3; 4; 1; 40; 70; 80; 53; 5353; 0; 0; 17; 184; 1; 2; 32; 32; 0].
Example c05_nonvacuous :
  wf_v5_hdr ex_h = true /\ forallb wf_v5_rec [ex_r1; ex_r2] = true /\
  v5_count ex_h = N.of_nat (length [ex_r1; ex_r2]) /\
  decode_v5 (encode_v5 ex_h [ex_r1; ex_r2]) = Ok (ex_h, [ex_r1; ex_r2]).
Proof. vm_compute. repeat split. Qed.

(* the defect of the pinned tree (Records pre-sized from Count, never cut back): one record,
   count = 30 yields 30 records.  Fixed in /repo by a "fix:" commit; kept as a theorem so the
   finding stays replayable. *)
Example c05_pinned_refuted :
  exists h r, wf_v5_hdr h = true /\ wf_v5_rec r = true /\
    match decode_v5_pinned (encode_v5 h [r]) with
    | Ok (_, out) => length out = 30%nat
    | _ => False
    end.
Proof. exists (set_count ex_h 30), ex_r1. vm_compute. repeat split. Qed.

(* the widths the model decodes the header and the records with ARE the field widths of the Go structs
   PacketNetFlowV5 / RecordsNetFlowV5 (Spec/DocTable.v v5_header_layout / v5_record_layout, regenerated from
   decoders/netflowlegacy/packet.go on every build), in declaration order *)
From GF Require Import Spec.DocCheck2.
Theorem c05_layout_is_the_go_struct : v5_layout_ok = true.
Proof. vm_compute. reflexivity. Qed.
Print Assumptions c05_layout_is_the_go_struct.
