(* C17 -- each received datagram is decoded exactly once, intact, or counted as dropped.
   Statements only; proofs in Proofs/RecvP.v. *)
From Coq Require Import List NArith Bool Permutation.
From GF Require Import Model.First Model.Recv Spec.TraceSpec Proofs.RecvP.
Import ListNotations.

(* for EVERY configuration (readers, workers, queue capacity incl. rendezvous, blocking or not) and
   EVERY schedule of reader and worker actions: every datagram read so far is in exactly one of
   {in a reader's hand, queued, being decoded, decoded, dropped} *)
Theorem c17_conservation : forall c readers workers sched,
  let s := fst (rrun c (rinit readers workers) sched) in
  Permutation (seq 0 (nextid s)) (accounted s) /\ NoDup (accounted s).
Proof. exact conservation. Qed.
Print Assumptions c17_conservation.

(* when nothing is in flight: reads = decoded + dropped, each id exactly once, never both *)
Theorem c17_quiescent : forall c readers workers sched,
  let s := fst (rrun c (rinit readers workers) sched) in
  quiescent s = true ->
  Permutation (seq 0 (nextid s)) (decoded s ++ dropped s) /\ NoDup (decoded s ++ dropped s).
Proof. exact quiescent_accounting. Qed.
Print Assumptions c17_quiescent.

(* a buffer in a reader's hand, in the queue or under a running decoder call belongs to exactly one
   of them and is not in the pool, so no read can land in it *)
Theorem c17_buffers_exclusive : forall c readers workers sched,
  let s := fst (rrun c (rinit readers workers) sched) in NoDup (map pbuf (live s) ++ free s).
Proof. exact buffers_exclusive. Qed.
Print Assumptions c17_buffers_exclusive.

(* in blocking mode nothing is dropped *)
Theorem c17_blocking_no_drop : forall c readers workers sched,
  blocking c = true -> dropped (fst (rrun c (rinit readers workers) sched)) = [].
Proof. exact blocking_no_drop. Qed.
Print Assumptions c17_blocking_no_drop.

(* the monitor that judges the real receiver's traces accepts the model's traces: evaluated here on
   schedules with drops, rendezvous hand-off and buffer reuse (soundness for ALL schedules is not proved:
   _partial) *)
Definition sched1 : list action :=
  [ARead 0; ARead 1; ADispatch 0; ADispatch 1; ARead 0; ADispatch 0; ADequeue 0; AFinish 0; ARead 1; ADequeue 0;
   ADispatch 1; ADequeue 1; AFinish 0; AFinish 1; ADequeue 0; AFinish 0].
Example c17_monitor_accepts_model_partial :
  let c := {| qcap := 1; blocking := false |} in
  let '(s, es) := rrun c (rinit 2 2) sched1 in
  trace_ok false es = true /\ quiescent s = true /\ dropped s = [2; 1] /\ decoded s = [3; 0].
Proof. vm_compute. repeat split. Qed.
