(* C17 -- each received datagram is decoded exactly once, intact, or counted as dropped.
   Statements only; proofs in Proofs/RecvP.v, Proofs/MonitorP.v. *)
From Coq Require Import List NArith Bool Permutation.
From GF Require Import Model.First Model.Recv Spec.TraceSpec Proofs.RecvP Proofs.MonitorP.
Import ListNotations.

(* for EVERY configuration (readers, workers, queue capacity incl. rendezvous, blocking or not) and
   EVERY schedule of reader and worker actions: every datagram read so far is in exactly one of
   {in a reader's hand, queued, being decoded, decoded, dropped} *)
Theorem c17_conservation : forall c readers workers sched,
  let s := fst (rrun c (rinit readers workers) sched) in
  Permutation (seq 0 (nextid s)) (accounted s) /\ NoDup (accounted s).
Proof. exact conservation. Qed.
Print Assumptions c17_conservation.

(* when nothing is in flight: reads = decoded + dropped, each id exactly once, never both *)
Theorem c17_quiescent : forall c readers workers sched,
  let s := fst (rrun c (rinit readers workers) sched) in
  quiescent s = true ->
  Permutation (seq 0 (nextid s)) (decoded s ++ dropped s) /\ NoDup (decoded s ++ dropped s).
Proof. exact quiescent_accounting. Qed.
Print Assumptions c17_quiescent.

(* a buffer in a reader's hand, in the queue or under a running decoder call belongs to exactly one
   of them and is not in the pool, so no read can land in it *)
Theorem c17_buffers_exclusive : forall c readers workers sched,
  let s := fst (rrun c (rinit readers workers) sched) in NoDup (map pbuf (live s) ++ free s).
Proof. exact buffers_exclusive. Qed.
Print Assumptions c17_buffers_exclusive.

(* in blocking mode nothing is dropped *)
Theorem c17_blocking_no_drop : forall c readers workers sched,
  blocking c = true -> dropped (fst (rrun c (rinit readers workers) sched)) = [].
Proof. exact blocking_no_drop. Qed.
Print Assumptions c17_blocking_no_drop.

(* monitor soundness: the monitor that judges the REAL receiver's event traces (Spec/TraceSpec.v, run by
   the check on what utils/udp.go emits through the verif hooks) accepts every trace the model receiver
   can produce -- every configuration, EVERY schedule -- and when nothing is in flight its final
   accounting test (reads = ended + dropped, nothing left in flight or decoding) passes.  A rejected
   trace is therefore not a behaviour of the model receiver. *)
Theorem c17_monitor_sound : forall c readers workers sched,
  let r := rrun c (rinit readers workers) sched in
  (exists m, mrun (blocking c) mon0 (snd r) = Some m) /\
  (quiescent (fst r) = true -> trace_ok (blocking c) (snd r) = true).
Proof. exact monitor_sound. Qed.
Print Assumptions c17_monitor_sound.

(* what acceptance means, for ANY event trace (the real receiver's included): no datagram id is decoded
   twice or both decoded and dropped, every started decoder call ended exactly once, every read is
   decoded or counted as dropped, and in blocking mode nothing is dropped.  (That no read lands in a
   buffer still owned by the queue or a running decoder call is the ERead clause of mstep itself.) *)
Theorem c17_monitor_meaning : forall b es,
  trace_ok b es = true ->
  NoDup (starts es ++ drops es) /\ length (starts es) = nends es /\
  nreads es = nends es + length (drops es) /\ (b = true -> drops es = []).
Proof. exact monitor_meaning. Qed.
Print Assumptions c17_monitor_meaning.

(* non-vacuity: a schedule with drops, rendezvous hand-off and buffer reuse reaches quiescence *)
Definition sched1 : list action :=
  [ARead 0; ARead 1; ADispatch 0; ADispatch 1; ARead 0; ADispatch 0; ADequeue 0; AFinish 0; ARead 1; ADequeue 0;
   ADispatch 1; ADequeue 1; AFinish 0; AFinish 1; ADequeue 0; AFinish 0].
Example c17_monitor_nonvacuous :
  let c := {| qcap := 1; blocking := false |} in
  let '(s, es) := rrun c (rinit 2 2) sched1 in
  trace_ok false es = true /\ quiescent s = true /\ dropped s = [2; 1] /\ decoded s = [3; 0].
Proof. vm_compute. repeat split. Qed.

(* the monitor is not trivially accepting: a buffer read into while a decoder call still runs on it,
   a datagram decoded twice, and a drop in blocking mode are each rejected *)
Example c17_monitor_rejects :
  trace_ok false [ERead 0; EStart 0 0; ERead 0; EEnd 0] = false /\
  trace_ok false [ERead 0; EStart 0 0; EEnd 0; ERead 0; EStart 0 0; EEnd 0] = false /\
  trace_ok true [ERead 0; EDrop 0 0] = false /\
  trace_ok false [ERead 0; ERead 1; EStart 0 0; EEnd 0] = false.
Proof. vm_compute. repeat split. Qed.

(* the trace of seed C17-7 (one Message variable shared by all decoder workers: a call that overlaps another one sees
   the other datagram): two datagrams read, both calls started, both calls end on the SECOND datagram -- rejected *)
Example c17_shared_message_rejected :
  trace_ok false [ERead 0; ERead 1; EStart 0 0; EStart 1 1; EEnd 1; EEnd 1] = false /\
  trace_ok false [ERead 0; ERead 1; EStart 0 0; EStart 1 1; EEnd 0; EEnd 1] = true.
Proof. vm_compute. split; reflexivity. Qed.
