(* C08 -- NetFlow v5/v9/IPFIX fields map to the flow message as documented.
   Statements only; proofs in Proofs/ProdP.v. *)
From Coq Require Import List NArith Bool.
From GF Require Import Base.Res Base.Bytes Model.Msg Model.NF Model.NFv5 Model.Packet Model.ProdNF Model.Pipe
     Spec.DocTable Spec.DocCheck Proofs.ProdP.
Import ListNotations.
Open Scope N_scope.

(* THE DOCUMENTATION TABLE IS IMPLEMENTED.  Spec/DocTable.v is regenerated on every build from docs/protocols.md
   of the repository under check (bin/gen_doctable.py): one row per column of the field table, with the NetFlow v9
   and IPFIX element ids the row names.  For EVERY row and EVERY id in it, the element writes that column in that
   protocol version (Spec/DocCheck.v: the columns an element can write, over probe values of every width).
   The domain is the table as it stands -- finite, enumerated completely by the kernel's evaluator.  A change of
   the documentation or of the producer that makes a documented pair false breaks this theorem. *)
Theorem c08_doc_table_implemented : forallb row_ok doc_rows = true.
Proof. vm_compute. reflexivity. Qed.
Print Assumptions c08_doc_table_implemented.

(* what row_ok means for one pair, spelled out *)
Theorem c08_doc_pair_meaning : forall name ver id, pair_ok name ver id = true ->
  exists c, col_of_name name = Some c /\
    exists v m, In v probes /\ nf_field empty_prodcfg ver 1700000000 1000 empty_msg id v = Ok m /\ In c (map fst (cols m)).
Proof.
  intros name ver id H. unfold pair_ok in H. destruct (col_of_name name) as [c|]; [|discriminate].
  exists c. split; [reflexivity|]. apply existsb_exists in H. destruct H as (x & Hin & Hx). apply N.eqb_eq in Hx. subst x.
  unfold touches in Hin.
  assert (G : forall l, In c (dedup l) -> In c l).
  { induction l as [|y r IH]; intros Hc; [exact Hc|]. cbn [dedup fold_right] in Hc. fold (dedup r) in Hc.
    destruct (existsb (N.eqb y) (dedup r)); [right; apply IH; exact Hc|].
    destruct Hc as [->|Hc]; [left; reflexivity|right; apply IH; exact Hc]. }
  apply G in Hin. apply in_flat_map in Hin. destruct Hin as (v & Hv & Hc).
  destruct (nf_field empty_prodcfg ver 1700000000 1000 empty_msg id v) as [m| | |] eqn:E; try contradiction.
  exists v, m. repeat split; assumption.
Qed.
Print Assumptions c08_doc_pair_meaning.

(* big-endian integers of every encoded width from 1 to 8 bytes are read at full value *)
Theorem c08_uint_exact : forall b, (length b <= 8)%nat -> wfb b -> dec_unum 64 b = Ok (be b).
Proof. exact dec_unum_exact. Qed.
Print Assumptions c08_uint_exact.

(* each documented plain-integer element fills its documented column with the big-endian value
   (reduced to the column's width), in either version, whatever the message held before *)
Theorem c08_scalar_fields : forall cfg ver base up m id col v,
  In (id, col) scalar_table -> (length v <= 8)%nat ->
  nf_field cfg ver base up m id v = Ok (msetI m col (be v mod 2 ^ col_bits col)).
Proof. exact nf_field_scalar. Qed.
Print Assumptions c08_scalar_fields.

Theorem c08_scalar_too_wide : forall cfg ver base up m id col v,
  In (id, col) scalar_table -> (8 < length v)%nat -> nf_field cfg ver base up m id v = Err EOther.
Proof. exact nf_field_scalar_long. Qed.
Print Assumptions c08_scalar_too_wide.

(* clock rules.  v9: export time minus (uptime - switched) in ms, all modulo 2^64 *)
Theorem c08_times_v9 : forall cfg base up m v,
  (length v <= 8)%nat ->
  nf_field cfg 9 base up m 22 v =
  Ok (msetI m cTimeStart (sub64 (base * 1000000000) (sub64 (up * 1000000) ((be v mod 2 ^ 32) * 1000000)))) /\
  nf_field cfg 9 base up m 21 v =
  Ok (msetI m cTimeEnd (sub64 (base * 1000000000) (sub64 (up * 1000000) ((be v mod 2 ^ 32) * 1000000)))).
Proof. intros. split; [apply nf_time_v9_first|apply nf_time_v9_last]; assumption. Qed.
Print Assumptions c08_times_v9.

(* IPFIX: absolute seconds / milli- / microseconds scaled to ns, nanoseconds as is, delta
   microseconds subtracted from the export time *)
Theorem c08_times_ipfix : forall cfg base up m id st mul v,
  In (id, (st, mul)) ipfix_time_table -> (length v <= 8)%nat ->
  nf_field cfg 10 base up m id v =
  Ok (msetI m (if st then cTimeStart else cTimeEnd) (mul64 (be v mod 2 ^ 64) mul)).
Proof. exact nf_time_ipfix_abs. Qed.
Print Assumptions c08_times_ipfix.
Theorem c08_times_ipfix_nanos : forall cfg base up m v,
  (length v <= 8)%nat ->
  nf_field cfg 10 base up m 156 v = Ok (msetI m cTimeStart (be v mod 2 ^ 64)) /\
  nf_field cfg 10 base up m 157 v = Ok (msetI m cTimeEnd (be v mod 2 ^ 64)).
Proof. exact nf_time_ipfix_nanos. Qed.
Theorem c08_times_ipfix_delta : forall cfg base up m v,
  (length v <= 8)%nat ->
  nf_field cfg 10 base up m 158 v = Ok (msetI m cTimeStart (sub64 (base * 1000000000) (mul64 (be v mod 2 ^ 64) 1000))) /\
  nf_field cfg 10 base up m 159 v = Ok (msetI m cTimeEnd (sub64 (base * 1000000000) (mul64 (be v mod 2 ^ 64) 1000))).
Proof. exact nf_time_ipfix_delta. Qed.
Print Assumptions c08_times_ipfix_delta.

(* NetFlow v5: every documented column of every record *)
Theorem c08_v5 : forall base up r,
  let m := convert_v5 base up r in
  let g i := nth i r 0 in
  mgetB m cSrcAddr = enc_be 4 (g 0%nat) /\ mgetB m cDstAddr = enc_be 4 (g 1%nat) /\ mgetB m cNextHop = enc_be 4 (g 2%nat) /\
  mgetI m cInIf = g 3%nat /\ mgetI m cOutIf = g 4%nat /\ mgetI m cPackets = g 5%nat /\ mgetI m cBytes = g 6%nat /\
  mgetI m cSrcPort = g 9%nat /\ mgetI m cDstPort = g 10%nat /\ mgetI m cTcpFlags = g 12%nat /\ mgetI m cProto = g 13%nat /\
  mgetI m cIpTos = g 14%nat /\ mgetI m cSrcAs = g 15%nat /\ mgetI m cDstAs = g 16%nat /\
  mgetI m cSrcNet = g 17%nat /\ mgetI m cDstNet = g 18%nat /\ mgetI m cEtype = 2048 /\ mgetI m cType = 2 /\
  mgetI m cTimeStart = sub64 base (((up + two32 - g 7%nat) mod two32) * 1000000) /\
  mgetI m cTimeEnd = sub64 base (((up + two32 - g 8%nat) mod two32) * 1000000).
Proof. exact convert_v5_columns. Qed.
Print Assumptions c08_v5.

(* the message carries the receive time and the exporter's address, IPv4-mapped unmapped *)
Theorem c08_enrich : forall tr sa m,
  mgetI (stamp_nf tr sa m) cTimeRecv = tr /\ mgetB (stamp_nf tr sa m) cSamplerAddr = sa.
Proof. exact stamp_columns. Qed.
Theorem c08_unmap : forall a b c d, unmap [0;0;0;0;0;0;0;0;0;0;255;255;a;b;c;d] = [a;b;c;d].
Proof. exact unmap_mapped. Qed.
Print Assumptions c08_enrich.

(* THE NETFLOW V5 COLUMN OF THE DOCUMENTATION TABLE IS IMPLEMENTED.  Spec/DocTable.v doc_v5 (regenerated from
   docs/protocols.md): the v5 cell of every row as written, with the field of the Go record struct it names
   (srcaddr, dOctets, prot, tcp_flags, src_mask ...; v5_record_layout is regenerated from
   decoders/netflowlegacy/packet.go).  For EVERY row: a cell that names a record field -> the column carries
   exactly that field of a probe record whose 20 fields are all different; NETFLOW_V5 / IPv4 / Included /
   "System uptime and first|last" -> the type, ethertype, presence and clock arithmetic they describe
   (Spec/DocCheck2.v; a cell in words the check does not know fails).  Finite table, evaluated by the kernel. *)
From GF Require Import Spec.DocCheck2.
Theorem c08_doc_v5_column_implemented : v5_doc_failures = [].
Proof. vm_compute. reflexivity. Qed.
Print Assumptions c08_doc_v5_column_implemented.
