(* C16 -- first contact with an exporter is atomic: no template or rate is lost.
   Statements only; proofs in Proofs/FirstP.v. *)
From Coq Require Import List NArith Bool.
From GF Require Import Model.First Proofs.FirstP.
Import ListNotations.

(* repaired protocol (re-check under the write lock): for ANY number of workers announcing ANY ids
   and ANY interleaving of their lookup / create-publish / add steps, every worker that has
   returned left its template (or rate) in the system every later datagram will use *)
Theorem c16_repaired : forall ts sched,
  let st := run true sched (init ts) in
  forall w, In w (snd st) -> pcw w = Done -> In (tid w) (visible st).
Proof. exact repaired_all_schedules. Qed.
Print Assumptions c16_repaired.

(* pinned protocol (publish without re-check): two workers, both miss, both publish: the first
   worker's template is lost.  Schedule: W0 lookup, W1 lookup, W0 create, W0 add, W1 create, W1 add *)
Example c16_pinned_refuted :
  let st := run false [0; 1; 0; 0; 1; 1] (init [100; 200]) in
  all_done st = true /\ lost st = [100].
Proof. vm_compute. split; reflexivity. Qed.

(* the same schedule under the repaired protocol loses nothing *)
Example c16_repaired_same_schedule :
  let st := run true [0; 1; 0; 0; 1; 1] (init [100; 200]) in all_done st = true /\ lost st = [].
Proof. vm_compute. split; reflexivity. Qed.

(* a slot published before its template system exists, with a fast path that does not wait for it (seed C16-5):
   worker 0 reserves the slot, worker 1 finds it empty and returns "successfully" with its announcement dropped *)
Example c16_slot_before_system_refuted :
  let st := run_slot [0; 0; 1; 0; 0] (init [100; 200]) in all_done st = true /\ lost st = [200].
Proof. vm_compute. split; reflexivity. Qed.

(* a "new source" flag decided under the pipe's lock and acted on later under the producer's (seed C16-7): worker 0
   creates the exporter's entry, worker 1 announces into it and RETURNS, worker 0 reaches the producer and installs a
   fresh system: worker 1's announcement is gone although its call had returned *)
Example c16_stale_flag_refuted :
  let st := run_flag [0; 0; 1; 1; 0] (init [100; 200]) in all_done st = true /\ lost st = [200].
Proof. vm_compute. split; reflexivity. Qed.
