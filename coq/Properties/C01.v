(* C01 -- untrusted datagrams never crash or stall the collector.
   Statements only; proofs in Proofs/TotalP.v. *)
From Coq Require Import List NArith Bool.
From GF Require Import Base.Res Base.Bytes Model.Msg Model.NF Model.NFv5 Model.SFlow Model.Packet Model.ProdNF
     Model.Cfg Model.Pipe Proofs.TotalP.
Import ListNotations.
Open Scope N_scope.

(* the three pipes: for EVERY compiled mapping, EVERY pipe state (hence every state built by earlier
   datagrams), EVERY exporter and EVERY byte string, DecodeFlow returns a result or an error -- it
   never panics and never exhausts the fuel, which is linear in the datagram (length + 3 per loop) *)
Theorem c01_pipe_total : forall k cfg st e tr d,
  prodcfg_ok cfg -> returns (pipe_step k cfg st e tr d).
Proof. intros. apply clean_returns, pipe_step_clean. assumption. Qed.
Print Assumptions c01_pipe_total.

(* every mapping file the loader accepts compiles to such a configuration; so does no mapping *)
Theorem c01_compiled_cfg_ok : forall a cfg, compile a = Some cfg -> prodcfg_ok cfg.
Proof. exact compile_ok. Qed.
Theorem c01_no_mapping_ok : prodcfg_ok empty_prodcfg.
Proof. exact empty_prodcfg_ok. Qed.
Print Assumptions c01_compiled_cfg_ok.

(* the exported decoders on every byte string and template state *)
Theorem c01_decode_nf_total : forall st d, returns (decode_nf st d).
Proof. intros. apply clean_returns, decode_nf_clean. Qed.
Theorem c01_decode_sf_total : forall d, returns (decode_sf d).
Proof. intros. apply clean_returns, decode_sf_clean. Qed.
Theorem c01_parse_packet_total : forall cfg m d, pcfg_ok cfg -> returns (parse_packet cfg m d).
Proof. intros. apply clean_returns, parse_packet_clean. assumption. Qed.
Print Assumptions c01_decode_nf_total.
Print Assumptions c01_decode_sf_total.
Print Assumptions c01_parse_packet_total.

(* histories: whatever came before, the next datagram is processed *)
Theorem c01_history : forall k cfg h st e tr d,
  prodcfg_ok cfg ->
  returns (pipe_step k cfg (fold_left (fun s x => let '(e', tr', d') := x in step_state s (pipe_step k cfg s e' tr' d')) h st) e tr d).
Proof. intros. apply clean_returns, pipe_step_clean. assumption. Qed.
Print Assumptions c01_history.

(* the defect of the pinned tree: a template whose records occupy no bytes made the data-set loop
   spin; with the pinned loop condition (no size-0 guard) the fuel runs out on a 4-byte set *)
Fixpoint dec_data_loop_pinned (fuel : nat) (fs : list field) (d : bytes) : res (list drec) :=
  match fuel with
  | O => OutOfFuel
  | S fu =>
      if Nat.leb 0 (length d) then   (* payload.Len() >= 0 *)
        let* (r, d1) := dec_record fs d in
        let* rs := dec_data_loop_pinned fu fs d1 in
        Ok (r :: rs)
      else Ok []
  end.
Example c01_pinned_refuted :
  dec_data_loop_pinned 1000 [{| fPenP := false; fType := 7; fLen := 0; fPen := 0 |}] [1;2;3;4] = OutOfFuel.
Proof. vm_compute. reflexivity. Qed.
