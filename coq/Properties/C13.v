(* C13 -- every message serialises: valid JSON, framed protobuf, agreeing values.
   Statements only; proofs in Proofs/FormatP.v, Proofs/RenderP.v. *)
From Coq Require Import String List NArith Bool.
From GF Require Import Base.Res Base.Bytes Model.Msg Model.Pb Model.Json Model.Render Spec.JsonGrammar Spec.ParseIP Proofs.FormatP Proofs.RenderP Proofs.ParseIPP Proofs.Utf8P.
From GF Require Import Model.Cfg Model.Format Proofs.FormatGP.
Import ListNotations.
Open Scope N_scope.

(* the length prefix decodes back to the length, whatever follows *)
Theorem c13_varint : forall n r, n < 18446744073709551616 -> dec_varint (enc_varint n ++ r) = Some (n, r).
Proof. exact varint_roundtrip. Qed.
Print Assumptions c13_varint.

(* a concatenated stream of any number of framed messages (any bytes) splits unambiguously into
   exactly the messages written *)
Theorem c13_stream : forall bs fuel,
  Forall (fun b => lenN b < 18446744073709551616) bs ->
  (length (concat (map frame bs)) < fuel)%nat ->
  split_frames fuel (concat (map frame bs)) = Some bs.
Proof. exact split_frames_concat. Qed.
Print Assumptions c13_stream.

(* a string value of ANY (ASCII) bytes -- quotes, backslashes, control characters -- is written
   as a well-formed JSON string *)
Theorem c13_json_string : forall s, Forall (fun b => b < 128) s -> json_value (esc_string s).
Proof. exact esc_string_value. Qed.
Print Assumptions c13_json_string.

(* ... and a string value of ARBITRARY bytes (what a string-rendered custom field may carry: ill-formed UTF-8, overlong
   forms, surrogates, stray continuation bytes, U+2028 / U+2029) is written as a well-formed JSON string in UTF-8:
   well-formed sequences are copied, U+2028/9 and every ill-formed byte are escaped (as U+FFFD).  The model agrees with
   encoding/json on all single bytes, all two-byte strings with a lead byte and the table's boundary cases. *)
Theorem c13_json_string_any_bytes : forall s, json_value (esc_string_utf8 s).
Proof. exact esc_string_utf8_value. Qed.
Print Assumptions c13_json_string_any_bytes.
Theorem c13_json_string_ascii_same : forall s, Forall (fun b => b < 128) s -> esc_string_utf8 s = esc_string s.
Proof. exact esc_string_utf8_ascii. Qed.

(* the formatter's output is ONE well-formed JSON object for every list of rendered values
   (numbers, strings of any bytes, arrays), given key names that are plain JSON string text *)
Theorem c13_json_object : forall ms,
  Forall (fun kv => json_chars (fst kv) /\ jval_ok (snd kv)) ms -> json_value (format_object ms).
Proof. exact format_object_value. Qed.
Print Assumptions c13_json_object.

(* THE DEFAULT JSON FORM OF EVERY MESSAGE IS ONE WELL-FORMED JSON OBJECT: for ANY message (any column values,
   addresses of any length, any repeated fields), the bytes MarshalJSON writes under the default configuration
   (Model/Render.v: every column in struct order through its default renderer -- addresses in net/netip text
   form, MACs, ethertype / protocol / enum names from the tables regenerated from the source, prefixes, decimal
   numbers, arrays) are an RFC 8259 object.  The model's bytes are compared with the implementation's byte for
   byte on every run. *)
Theorem c13_json_default_valid : forall m, json_value (json_default m).
Proof. exact json_default_valid. Qed.
Print Assumptions c13_json_default_valid.

(* a number written in JSON or text denotes the column's value: reading the decimal digits back gives it *)
Theorem c13_numbers_denote : forall n, parse_dec (show_dec n) = n /\ json_number (show_dec n).
Proof. intros n. split; [apply show_dec_value|apply show_dec_number]. Qed.
Print Assumptions c13_numbers_denote.

(* every rendered address, MAC, prefix and name is plain ASCII (nothing for the JSON writer to escape or reject) *)
Theorem c13_rendered_ascii : forall b n a bits k,
  ascii7 (render_ip b) /\ ascii7 (mac_string n) /\ ascii7 (render_prefix a bits) /\ ascii7 (proto_name k) /\ ascii7 (etype_name k).
Proof. intros. repeat split; [apply render_ip_ascii|apply mac_ascii|apply render_prefix_ascii|apply proto_name_ascii|apply etype_name_ascii]. Qed.
Print Assumptions c13_rendered_ascii.

(* JSON, text and protobuf describe the SAME address: the text form of EVERY 4- or 16-byte address reads back
   (Spec/ParseIP.v: dotted decimal, hex groups with at most one "::", "::ffff:a.b.c.d") to exactly the bytes the
   protobuf carries -- zero-run compression, IPv4-mapped form and leading-zero suppression lose nothing *)
Theorem c13_address_text_exact : forall b, wfb b -> (length b = 4%nat \/ length b = 16%nat) ->
  parse_ip (render_ip b) = Some b.
Proof. exact render_ip_roundtrip. Qed.
Print Assumptions c13_address_text_exact.

Theorem c13_address_text_injective : forall a b, wfb a -> wfb b ->
  (length a = 4%nat \/ length a = 16%nat) -> (length b = 4%nat \/ length b = 16%nat) -> render_ip a = render_ip b -> a = b.
Proof. exact render_ip_injective. Qed.

Theorem c13_mac_text_exact : forall n, n < 281474976710656 -> parse_mac (mac_string n) = n.
Proof. exact mac_roundtrip. Qed.
Print Assumptions c13_mac_text_exact.

Example c13_render_examples :
  render_ip [32;1;13;184;0;0;0;0;0;0;0;0;0;0;0;1] = bytes_of_string "2001:db8::1"%string /\
  render_ip [32;1;0;0;0;0;0;1;0;0;0;0;0;0;0;1] = bytes_of_string "2001:0:0:1::1"%string /\
  render_ip [0;0;0;0;0;0;0;0;0;0;255;255;10;0;0;1] = bytes_of_string "::ffff:10.0.0.1"%string /\
  render_ip [1;2;3] = [] /\
  mac_string 450971566188 = bytes_of_string "00:69:00:00:00:6c"%string /\
  render_prefix [10;1;2;3] 12 = bytes_of_string "10.0.0.0/12"%string /\
  render_prefix [10;1;2;3] 33 = bytes_of_string "invalid Prefix"%string /\
  proto_name 6 = bytes_of_string "TCP"%string /\ proto_name 200 = bytes_of_string "unassigned"%string.
Proof. vm_compute. repeat split. Qed.

Example c13_nonvacuous :
  dec_varint (enc_varint 300 ++ [7]) = Some (300, [7]) /\
  split_frames 100 (frame [1;2;3] ++ frame [] ++ frame [9]) = Some [[1;2;3]; []; [9]] /\
  esc_string [97; 34; 10; 92] = [34; 97; 92; 34; 92; 110; 92; 92; 34].
Proof. vm_compute. repeat split. Qed.

(* ---- the protobuf half: "a protobuf that parses back to the same message" ----------------------------------
   Spec/PbWire.v is a PARSER of the protobuf wire grammar (varint tags, wire types 0 and 2), written without
   reference to the encoder, and the reading of the parsed fields against the schema of pb/flow.proto (packed
   repeated varints).  For EVERY message whose columns hold the kinds of value the schema gives them (numbers below
   2^64, bytes below 256, custom fields with numbers of their own): the bytes the binary driver writes parse, and
   what the parsed fields say is exactly the message's content -- Msg.show_msg, the canonical observation all the
   comparisons with the implementation use -- column by column in field-number order, then the custom fields. *)
From GF Require Import Spec.PbWire Proofs.PbP.
Theorem c13_protobuf_parses_back : forall m,
  msg_ok m = true ->
  exists items,
    parse_wire (S (length (pb_encode m))) (pb_encode m) = Some items /\
    obs_items items = Some (tl (show_msg m)).
Proof. exact pb_roundtrip. Qed.
Print Assumptions c13_protobuf_parses_back.

(* non-vacuity: every message the pipe emits for the first generated mixed histories (v5, v9, IPFIX, sFlow) is in
   the theorem's domain, and parsing its bytes inside Coq gives its content (evaluated in Proofs/PbEx.v) *)
From GF Require Import Base.Gen Model.Pipe Model.ProdNF Drivers.D13 Proofs.PbEx.
Example c13_protobuf_nonvacuous :
  let ms := flat_map (fun i => run_msgs PKFlow empty_prodcfg init_pstate (gcase gen_mixed 1 i)) [0; 1; 2; 3; 4; 5] in
  (20 <=? lenN ms) && forallb msg_ok ms && forallb parses_back ms = true.
Proof. exact protobuf_nonvacuous. Qed.

(* ---- ANY formatter configuration (Model/Format.v: field list and order, renames, every registered renderer
   on every kind of column, virtual fields, custom protobuf fields scalar / array; the model is compared byte
   for byte with MarshalJSON / MarshalText under generated mapping files on every run) ---- *)

(* for EVERY compiled configuration and EVERY message: the JSON form is one well-formed RFC 8259 object -- whatever
   bytes the string-rendered values hold and whatever characters the configured (renamed) field names have *)
Theorem c13_json_any_config_valid : forall c m out,
  format_json c m = Some out -> json_value out.
Proof. exact format_json_valid. Qed.
Print Assumptions c13_json_any_config_valid.

(* its keys are the configured fields that are written for this message, under their configured names, in
   configured order *)
Theorem c13_keys_configured_order : forall c m ms,
  format_members c m (cFields c) = Some ms ->
  map fst ms = map (fun s => bytes_of_string (final_name c s)) (filter (written c m) (cFields c)).
Proof. exact format_json_keys. Qed.
Print Assumptions c13_keys_configured_order.

(* which are written: a field of the message struct always, ... *)
Theorem c13_struct_field_always_written : forall c m s j g col k,
  struct_by_go (remap (cCustoms c) s) = Some (j, g, col, k) -> format_field c m s <> Some None.
Proof. exact struct_field_written. Qed.
Print Assumptions c13_struct_field_always_written.

(* ... a declared custom field only when the flow carries it, whatever renderer is configured for it, ... *)
Theorem c13_custom_only_when_carried : forall c m s,
  is_custom (cCustoms c) s = true -> struct_by_go s = None ->
  unk_value (cCustoms c) (unk m) s None = Some None ->
  format_field c m s = Some None.
Proof. exact custom_absent_not_written. Qed.
Print Assumptions c13_custom_only_when_carried.

(* ... and always when it does *)
Theorem c13_custom_written_when_carried : forall c m s v,
  struct_by_go (remap (cCustoms c) s) = None ->
  unk_value (cCustoms c) (unk m) s None = Some (Some v) ->
  format_field c m s <> Some None.
Proof. exact custom_present_written. Qed.
Print Assumptions c13_custom_written_when_carried.

(* JSON and text are two writings of one list of members *)
Theorem c13_text_json_same_members : forall c m,
  match format_members c m (cFields c) with
  | Some ms => format_json c m = Some (123 :: intersperse [44] (map show_member_u ms) ++ [125]) /\
               format_text c m = Some (intersperse [32] (map (fun kv => fst kv ++ [61] ++ show_text_val (snd kv)) ms))
  | None => format_json c m = None /\ format_text c m = None
  end.
Proof. exact formats_same_members. Qed.
Print Assumptions c13_text_json_same_members.

(* THE FIRST SENTENCE OF THE PROPERTY: every flow message can be written in each textual form.  For EVERY mapping file
   the loader accepts that does not declare one custom field name both as array and as scalar and that configures no
   datetime renderer, and for EVERY message: the JSON form and the text form exist -- the formatter never reaches a
   state where the Go code would panic -- and the JSON form is a well-formed object.  (With a datetime renderer the same holds for
   timestamps up to the year 9999, c13_timestamp_in_range.) *)
From GF Require Import Proofs.FormatTotalP.
Theorem c13_every_message_serialises : forall f cs c m,
  compile_fmt f cs = Some c -> no_datetime f -> customs_ok cs ->
  exists j t, format_json c m = Some j /\ format_text c m = Some t /\ json_value j.
Proof.
  intros f cs c m Hc Hn Ho. destruct (format_json_total f cs c m Hc Hn Ho) as [Hj Ht].
  destruct (format_json c m) as [j|] eqn:Ej; [|congruence]. destruct (format_text c m) as [t|]; [|congruence].
  exists j, t. split; [reflexivity|]. split; [reflexivity|]. eapply format_json_valid. exact Ej.
Qed.
Print Assumptions c13_every_message_serialises.

(* with no mapping file the general formatter IS the default formatter of Model/Render.v (the one the theorems
   c13_json_default_valid, c13_address_text_exact ... speak about), for every message, byte for byte *)
Theorem c13_default_is_general : forall m,
  compile_fmt empty_afmt [] = Some c0 /\ format_json c0 m = Some (json_default m) /\ format_text c0 m = Some (text_default m).
Proof. intros m. split; [exact compile_default|]. split; [apply format_default_json|apply format_default_text]. Qed.
Print Assumptions c13_default_is_general.

(* ---- timestamps (the datetime / datetimenano renderers, time.Format(RFC3339Nano) in UTC) are exact ----------
   Spec/Calendar.v reads "YYYY-MM-DDTHH:MM:SS[.fraction]Z" back, with the calendar written by COUNTING days (365 a
   year, leap days by the 4 / 100 / 400 rule), independently of the date arithmetic of the model.  For EVERY instant
   from 1970-01-01 to the end of the year 9999 and every nanosecond: the text the renderer writes denotes exactly
   that instant (Proofs/CalendarP.v: one 400-year era checked day by day by the kernel, then periodicity). *)
From GF Require Import Spec.Calendar Proofs.CalendarP.
Theorem c13_timestamp_text_exact : forall sec ns s,
  ns < 1000000000 -> rfc3339 sec ns = Some s -> parse_ts s = Some (sec, ns).
Proof. exact rfc3339_exact. Qed.
Print Assumptions c13_timestamp_text_exact.
Theorem c13_timestamp_in_range : forall sec ns, sec < 253402300800 -> exists s, rfc3339 sec ns = Some s.
Proof. exact rfc3339_total. Qed.
Theorem c13_datetimenano_denotes_the_column : forall m f n s,
  apply_renderer "DateTimeNanoRenderer" m f (Some (GU64 n)) = Some (OStr s) ->
  parse_ts s = Some (n / 1000000000, n mod 1000000000).
Proof. exact datetimenano_exact. Qed.
Print Assumptions c13_datetimenano_denotes_the_column.
Theorem c13_datetime_denotes_the_column : forall m f n s,
  apply_renderer "DateTimeRenderer" m f (Some (GU64 n)) = Some (OStr s) -> parse_ts s = Some (n, 0).
Proof. exact datetime_exact. Qed.
(* the day number <-> date correspondence behind it, for every day *)
Theorem c13_calendar_exact : forall n,
  let '(y, m, d) := civil n in
  1970 <= y /\ 1 <= m /\ m <= 12 /\ 1 <= d /\ d <= mdays y m /\ days_of_civil y m d = n.
Proof. exact civil_exact. Qed.
Print Assumptions c13_calendar_exact.
Example c13_timestamp_examples :
  rfc3339 1700000000 123000000 = Some (bytes_of_string "2023-11-14T22:13:20.123Z") /\
  rfc3339 951782400 0 = Some (bytes_of_string "2000-02-29T00:00:00Z") /\
  rfc3339 253402300799 999999999 = Some (bytes_of_string "9999-12-31T23:59:59.999999999Z") /\
  rfc3339 253402300800 0 = None.
Proof. vm_compute. repeat split. Qed.

(* non-vacuity: a mapping file with a field list, a rename, renderers, a virtual field and two custom fields
   compiles; a message carrying one of the custom fields (twice: it is an array) is written as expected *)
Local Open Scope string_scope.
Definition ex_customs : list custom :=
  [{| cName := "cust0"; cIndex := 1001; cType := PTVarint; cArray := true |};
   {| cName := "cust1"; cIndex := 1002; cType := PTString; cArray := false |}].
Definition ex_afmt : afmt :=
  {| fFields := ["src_addr"; "cust0"; "time_received_ns"; "cust1"; "icmp_name"; "proto"; "dst_addr"];
     fRename := [("proto", "pro""to<col>")];
     fRender := [("time_received_ns", "datetimenano"); ("cust1", "etype"); ("dst_addr", "none")];
     fKeys := ["src_addr"; "cust0"] |}.
Definition ex_msg : msg :=
  madd_unk (madd_unk
    (msetI (msetB (msetB (msetI empty_msg cProto 6) cSrcAddr [10;0;0;1]) cDstAddr [10;0;0;2]) cTimeRecv 1700000000123000000)
    {| uNum := 1001; uVarint := true; uInt := 7; uBytes := [] |})
    {| uNum := 1001; uVarint := true; uInt := 9; uBytes := [] |}.
(* the side conditions of c13_every_message_serialises hold for the custom fields of the example, and for the example
   without its datetime renderer *)
Example c13_serialises_nonvacuous :
  customs_okb ex_customs = true /\
  no_datetimeb {| fFields := fFields ex_afmt; fRename := fRename ex_afmt; fRender := [("cust1", "etype"); ("dst_addr", "none")];
                  fKeys := fKeys ex_afmt |} = true.
Proof. vm_compute. split; reflexivity. Qed.

Example c13_any_config_nonvacuous :
  match compile_fmt ex_afmt ex_customs with
  | Some c =>
      format_json c ex_msg = Some (bytes_of_string
        "{""src_addr"":""10.0.0.1"",""cust0"":[7,9],""time_received_ns"":""2023-11-14T22:13:20.123Z"",""icmp_name"":""unknown"",""pro\""to\u003ccol\u003e"":""TCP"",""dst_addr"":""0a000002""}") /\
      format_text c ex_msg = Some (bytes_of_string
        "src_addr=10.0.0.1 cust0=[7,9] time_received_ns=2023-11-14T22:13:20.123Z icmp_name=unknown pro""to<col>=TCP dst_addr=0a000002")
  | None => False
  end.
Proof. vm_compute. repeat split. Qed.

(* the hex text the default renderer writes for a byte-valued custom field reads back to the bytes *)
Theorem c13_hex_text_exact : forall b, wfb b -> parse_hex (hex_of_bytes b) = Some b.
Proof. exact hex_roundtrip. Qed.
Print Assumptions c13_hex_text_exact.

(* the prefix text of src_net / dst_net reads back to the address masked to the prefix length, and the length *)
Theorem c13_prefix_text_exact : forall addr bits,
  wfb addr -> (length addr = 4%nat /\ bits <= 32 \/ length addr = 16%nat /\ bits <= 128) ->
  parse_prefix (render_prefix addr bits) = Some (mask_bytes addr bits, bits).
Proof. exact prefix_roundtrip. Qed.
Print Assumptions c13_prefix_text_exact.
