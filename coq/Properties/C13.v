(* C13 -- every message serialises: valid JSON, framed protobuf, agreeing values.
   Statements only; proofs in Proofs/FormatP.v. *)
From Coq Require Import List NArith Bool.
From GF Require Import Base.Res Base.Bytes Model.Msg Model.Pb Model.Json Spec.JsonGrammar Proofs.FormatP.
Import ListNotations.
Open Scope N_scope.

(* the length prefix decodes back to the length, whatever follows *)
Theorem c13_varint : forall n r, n < 18446744073709551616 -> dec_varint (enc_varint n ++ r) = Some (n, r).
Proof. exact varint_roundtrip. Qed.
Print Assumptions c13_varint.

(* a concatenated stream of any number of framed messages (any bytes) splits unambiguously into
   exactly the messages written *)
Theorem c13_stream : forall bs fuel,
  Forall (fun b => lenN b < 18446744073709551616) bs ->
  (length (concat (map frame bs)) < fuel)%nat ->
  split_frames fuel (concat (map frame bs)) = Some bs.
Proof. exact split_frames_concat. Qed.
Print Assumptions c13_stream.

(* a string value of ANY (ASCII) bytes -- quotes, backslashes, control characters -- is written
   as a well-formed JSON string *)
Theorem c13_json_string : forall s, Forall (fun b => b < 128) s -> json_value (esc_string s).
Proof. exact esc_string_value. Qed.
Print Assumptions c13_json_string.

(* the formatter's output is ONE well-formed JSON object for every list of rendered values
   (numbers, strings of any bytes, arrays), given key names that are plain JSON string text *)
Theorem c13_json_object : forall ms,
  Forall (fun kv => json_chars (fst kv) /\ jval_ok (snd kv)) ms -> json_value (format_object ms).
Proof. exact format_object_value. Qed.
Print Assumptions c13_json_object.

Example c13_nonvacuous :
  dec_varint (enc_varint 300 ++ [7]) = Some (300, [7]) /\
  split_frames 100 (frame [1;2;3] ++ frame [] ++ frame [9]) = Some [[1;2;3]; []; [9]] /\
  esc_string [97; 34; 10; 92] = [34; 97; 92; 34; 92; 110; 92; 92; 34].
Proof. vm_compute. repeat split. Qed.
