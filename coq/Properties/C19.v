(* C19 -- file output: each message written once and intact, also across rotation.
   Statements only; proofs in Proofs/FileP.v. *)
From Coq Require Import List NArith Bool.
From GF Require Import Model.First Model.FileT Proofs.FileP.
Import ListNotations.

(* repaired protocol: for ANY number of senders and ANY schedule of their pick / write steps and
   of SIGHUP rotations, no send ever hits a closed file and every completed send is in the files *)
Theorem c19_repaired : forall ids sched,
  let st := frun true sched (finit ids) in
  errors st = 0 /\ forall w, In w (snd st) -> spcw w = SDone -> In (mid w) (written st).
Proof. exact repaired_no_loss. Qed.
Print Assumptions c19_repaired.

(* every step adds at most one unit to the files (a unit is never split or written twice: files
   are lists of whole units and only a sender's own write step appends) *)
Theorem c19_one_unit_per_step : forall st i, length (written (fstep true st i)) <= S (length (written st)).
Proof. exact written_length_le. Qed.
Print Assumptions c19_one_unit_per_step.

(* pinned protocol (lock released between picking the writer and writing): sender picks, the
   rotation closes the file, the write fails and the message is lost *)
Example c19_pinned_refuted :
  let st := frun false [0; 1; 0] (finit [7]) in errors st = 1 /\ written st = [].
Proof. vm_compute. split; reflexivity. Qed.
Example c19_repaired_same_schedule :
  let st := frun true [0; 1; 0] (finit [7]) in errors st = 0 /\ written st = [7].
Proof. vm_compute. split; reflexivity. Qed.

(* a grace period of one rotation (the replaced file is closed at the NEXT rotation, the write happens outside the
   lock -- seed C19-5) survives one rotation in the window and fails at the second: *)
Example c19_grace_one_rotation :
  let st := frun_grace [0; 1; 0] (finit [7]) in errors st = 0 /\ written st = [7].
Proof. vm_compute. split; reflexivity. Qed.
Example c19_grace_refuted :
  let st := frun_grace [0; 1; 1; 0] (finit [7]) in errors st = 1 /\ written st = [].
Proof. vm_compute. split; reflexivity. Qed.
Example c19_repaired_two_rotations :
  let st := frun true [0; 1; 1; 0] (finit [7]) in errors st = 0 /\ written st = [7].
Proof. vm_compute. split; reflexivity. Qed.
