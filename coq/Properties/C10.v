(* C10 -- sampled packet headers are dissected correctly at any capture length.
   Statements only; proofs in Proofs/PacketP.v. *)
From Coq Require Import List NArith Bool.
From GF Require Import Base.Res Base.Bytes Base.Gen Model.Msg Model.Packet Spec.Frame Proofs.PacketP.
Import ListNotations.
Open Scope N_scope.

(* fields of tunnelled inner headers never overwrite those of the outer headers: once the
   dissector is past the encapsulation point, EVERY byte string leaves every column except the
   layer stack and the layer sizes untouched *)
Theorem c10_outer_frozen : forall fuel ports data offset p m m',
  parse_loop fuel {| cLayers := []; cPorts := ports |} data offset p true m = Ok m' ->
  same_except [cLayerStack; cLayerSize] m m'.
Proof. exact parse_loop_frozen. Qed.
Print Assumptions c10_outer_frozen.

(* no layer parser can panic on any byte string: every index is guarded *)
Theorem c10_parsers_total : forall ports p base m d, exists r, run_parser ports p base m d = Ok r.
Proof. exact run_parser_ok. Qed.
Print Assumptions c10_parsers_total.

(* the full-capture theorem parse_packet (encode_frame f) = ref_frame f is NOT proved for all
   frames (c10_full of DESIGN.md); it is checked by evaluation on generated frames here and by the
   correspondence run on every check.  Named _partial accordingly. *)
Definition full_ok (f : frame) : bool :=
  match parse_packet empty_pcfg empty_msg (encode_frame f) with
  | Ok m => toks_eqb (show_msg m) (show_msg (ref_frame f))
  | _ => false
  end.
Example c10_full_partial : forallb full_ok (map (gcase gen_frame 1) [0;1;2;3;4;5;6;7;8;9;10;11;12;13;14;15]) = true.
Proof. vm_compute. reflexivity. Qed.
