(* C10 -- sampled packet headers are dissected correctly at any capture length.
   Statements only; proofs in Proofs/FrameL.v (layer contracts), Proofs/FrameP.v (the loop over a chain of
   layers, the full-capture theorem), Proofs/PacketP.v. *)
From Coq Require Import List NArith Bool.
From GF Require Import Base.Res Base.Bytes Base.Gen Model.Msg Model.Packet Spec.Frame Model.ProdNF Proofs.PacketP Proofs.FrameL Proofs.FrameP Proofs.SFlowE2E.
Import ListNotations.
Open Scope N_scope.

(* fields of tunnelled inner headers never overwrite those of the outer headers: once the
   dissector is past the encapsulation point, EVERY byte string leaves every column except the
   layer stack and the layer sizes untouched *)
Theorem c10_outer_frozen : forall fuel ports data offset p m m',
  parse_loop fuel {| cLayers := []; cPorts := ports |} data offset p true m = Ok m' ->
  same_except [cLayerStack; cLayerSize] m m'.
Proof. exact parse_loop_frozen. Qed.
Print Assumptions c10_outer_frozen.

(* no layer parser can panic on any byte string: every index is guarded *)
Theorem c10_parsers_total : forall ports p base m d, exists r, run_parser ports p base m d = Ok r.
Proof. exact run_parser_ok. Qed.
Print Assumptions c10_parsers_total.

(* THE PROPERTY for complete captures: for EVERY well-formed frame of the layered model -- any number of
   VLAN tags, any MPLS stack (labels > 15), IPv4 or IPv6 with optional segment-routing and fragment
   headers, no tunnel / GRE / GRE+Ethernet / IP-in-IP with any inner IP header, TCP, UDP, ICMP, ICMPv6 or
   another protocol, any field values, any trailing bytes -- the dissector returns a message that has
   exactly the columns of ref_frame f (Spec/Frame.v): MACs, ethertype, last VLAN id, MPLS labels and TTLs,
   addresses, protocol, TOS, TTL, flow label, fragment id/offset/flags, ports, TCP flags, ICMP type/code,
   SRv6 segment list, the layer stack and one size per layer; inner headers leave the outer fields alone.
   meq = same value in every column and the same custom fields, so the same protobuf (c10_meq_observable). *)
Theorem c10_full_capture : forall f, wf_frame f = true ->
  exists m, parse_packet empty_pcfg empty_msg (encode_frame f) = Ok m /\ meq m (ref_frame f).
Proof. exact parse_full_capture. Qed.
Print Assumptions c10_full_capture.

(* the same from ANY starting message (as the sFlow producer calls the dissector, with the sample's fields
   already set) and with ANY bytes behind the frame that do not change what ParseMPLS could peek at *)
Theorem c10_full_capture_on : forall m0 f extra, wf_frame f = true ->
  mgetLI m0 cLayerStack = [] -> mgetLI m0 cLayerSize = [] -> mgetLB m0 cRhAddrs = [] ->
  peek_etype (frame_rest f ++ extra) = peek_etype (frame_rest f) ->
  exists m, parse_packet empty_pcfg m0 (encode_frame f ++ extra) = Ok m /\ meq m (framed m0 f).
Proof. exact parse_full_capture_on. Qed.
Print Assumptions c10_full_capture_on.

(* IPFIX dataLinkFrameSection (element 315): the frame carried in a flow record is dissected into the record's
   message exactly as above; packets = 1 and bytes falls back to the section's length *)
Theorem c10_ipfix_frame_section : forall f m0 base up,
  wf_frame f = true ->
  mgetLI m0 cLayerStack = [] -> mgetLI m0 cLayerSize = [] -> mgetLB m0 cRhAddrs = [] ->
  exists m1, parse_packet empty_pcfg m0 (encode_frame f) = Ok m1 /\ meq m1 (framed m0 f) /\
    nf_field empty_prodcfg 10 base up m0 315 (encode_frame f) =
    Ok (let m2 := msetI m1 cPackets 1 in if mgetI m2 cBytes =? 0 then msetI m2 cBytes (lenN (encode_frame f)) else m2).
Proof. exact ipfix_frame_section. Qed.
Print Assumptions c10_ipfix_frame_section.

Theorem c10_meq_observable : forall m b, meq m b -> show_msg m = show_msg b.
Proof. exact meq_show. Qed.
Print Assumptions c10_meq_observable.

(* capture cut short, layer by layer: a parser that does not see its whole header stops and sets
   nothing (for EVERY byte string shorter than the header) ... *)
Theorem c10_short_header_stops : forall ports p base m d,
  (length d < min_len p)%nat -> run_parser ports p base m d = Ok (m, 0, PNone).
Proof. exact short_stops. Qed.
Print Assumptions c10_short_header_stops.

(* ... and a parser that sees its whole header reports the header's true fields whatever follows it
   (rest is arbitrary: the remainder of the frame, a cut remainder, or nothing).  Stated here for the IPv4
   and IPv6 headers and the TCP header; the other layers are the *_contract lemmas of Proofs/FrameL.v. *)
Theorem c10_ipv4_header_exact : forall ports base m h next tl rest,
  wf_ip4 h = true ->
  run_parser ports PIPv4 base m (ip4_hdr h next tl ++ rest) =
  Ok ((if base then assign (ip4_assign h next) else (fun x => x)) (add_layer m PIPv4), 20, next_proto next).
Proof. exact ip4_contract. Qed.
Theorem c10_ipv6_header_exact : forall ports base m h plen nh rest,
  wf_ip6_base h = true ->
  run_parser ports PIPv6 base m (ip6_hdr h nh plen ++ rest) =
  Ok ((if base then assign (ip6_assign h nh) else (fun x => x)) (add_layer m PIPv6), 40, next_proto nh).
Proof. exact ip6_contract. Qed.
Theorem c10_tcp_header_exact : forall base m sp dp fl ow rest,
  sp < 65536 -> dp < 65536 -> ow <= 10 ->
  run_parser [] PTCP base m (enc_l4 (L4TCP sp dp fl ow) ++ rest) =
  Ok ((if base then assign [(cSrcPort, VI sp); (cDstPort, VI dp); (cTcpFlags, VI fl)] else (fun x => x)) (add_layer m PTCP),
      20 + 4 * ow, PNone).
Proof. exact tcp_contract. Qed.
Print Assumptions c10_tcp_header_exact.

(* non-vacuity: the frames the check sends to the real dissector lie inside the theorem's domain, and
   the extracted dissector agrees with the reference on them when evaluated inside Coq *)
Example c10_generated_are_wf :
  forallb (fun i => wf_frame (gcase gen_frame 1 i)) [0;1;2;3;4;5;6;7;8;9;10;11;12;13;14;15;16;17;18;19;20;21;22;23;24] = true.
Proof. vm_compute. reflexivity. Qed.
Definition full_ok (f : frame) : bool :=
  match parse_packet empty_pcfg empty_msg (encode_frame f) with
  | Ok m => toks_eqb (show_msg m) (show_msg (ref_frame f))
  | _ => false
  end.
Example c10_full_eval : forallb full_ok (map (gcase gen_frame 1) [0;1;2;3;4;5;6;7;8;9;10;11;12;13;14;15]) = true.
Proof. vm_compute. reflexivity. Qed.

(* THE PROPERTY for captures cut short: frame_chain f (Proofs/FrameP.v) is the list of the frame's headers in
   order, each with its parser, its encoded bytes and the columns it sets.  A capture that ends c bytes
   into header j, 1 <= c < that header's minimal length (14 Ethernet, 4 802.1Q / MPLS / GRE, 20 IPv4 / TCP,
   40 IPv6, 8 UDP / IPv6 extension headers, 2 ICMP), is dissected EXACTLY like the first j headers alone:
   the message m agrees (Inv) with the base message b and the layer list ls that the first j layers
   produce -- their fields, one stack entry and one size each, and nothing from header j or beyond. *)
Theorem c10_truncated : forall f j c, wf_frame f = true -> (j < length (frame_chain f))%nat ->
  (1 <= c < min_len (lp (nth j (frame_chain f) dummy_layer)))%nat ->
  exists m e b ls,
    run_layers false empty_msg [] (firstn j (frame_chain f)) = Some (e, b, ls) /\
    parse_packet empty_pcfg empty_msg
      (firstn (length (concat (map lhdr (firstn j (frame_chain f)))) + c) (encode_frame f)) = Ok m /\ Inv m b ls.
Proof. exact parse_prefix. Qed.
Print Assumptions c10_truncated.

(* frame_chain is the frame: its headers, concatenated, are the frame's bytes *)
Theorem c10_chain_is_frame : forall f, encode_frame f = concat (map lhdr (frame_chain f)) ++ frame_rest f.
Proof. exact encode_frame_chain. Qed.

(* non-vacuity of the truncation theorem: generated frame 2 has more than three headers; cut 2 bytes into
   its fourth header the dissector reports three layers *)
Example c10_truncated_nonvacuous :
  let f := gcase gen_frame 1 2 in
  wf_frame f = true /\ (3 <? lenN (frame_chain f)) = true /\
  (2 <? N.of_nat (min_len (lp (nth 3 (frame_chain f) dummy_layer)))) = true /\
  match parse_packet empty_pcfg empty_msg (firstn (length (concat (map lhdr (firstn 3 (frame_chain f)))) + 2) (encode_frame f)) with
  | Ok m => lenN (mgetLI m cLayerStack) =? 3 | _ => false end = true.
Proof. vm_compute. repeat split. Qed.

(* What c10_truncated leaves open -- cuts inside the variable part of an MPLS stack or an SRv6 segment list beyond the
   header's minimal length, cuts exactly at a header boundary (also behind an MPLS stack, where the dissector cannot see
   the IP version nibble), cuts through TCP options -- is closed by c10_any_capture_length at the end of this file. *)

(* ---- the capture cut short, in the property's own words ------------------------------------------------------
   "When the capture is cut short, every reported field still equals the frame's true value or is left unset":
   for EVERY well-formed frame and every cut c bytes into header j (1 <= c < that header's minimal length), every
   column of the message -- other than the ethertype and the VLAN id, which report the last tag seen, and the two layer
   lists -- equals the value the COMPLETE frame gives it (ref_frame f) or is unset.  Proofs/FrameCutP.v: the message is
   built by the frame's headers in order, and no such column is written by two headers outside a tunnel. *)
From GF Require Import Proofs.FrameCutP.
Theorem c10_cut_true_or_unset : forall f j c, wf_frame f = true -> (j < length (frame_chain f))%nat ->
  (1 <= c < min_len (lp (nth j (frame_chain f) dummy_layer)))%nat ->
  exists m,
    parse_packet empty_pcfg empty_msg
      (firstn (length (concat (map lhdr (firstn j (frame_chain f)))) + c) (encode_frame f)) = Ok m /\
    forall k, k <> cEtype -> k <> cVlanId -> k <> cLayerStack -> k <> cLayerSize ->
      alookup (cols m) k = alookup (cols (ref_frame f)) k \/ alookup (cols m) k = None.
Proof. exact cut_true_or_unset. Qed.
Print Assumptions c10_cut_true_or_unset.

(* ... and it reports exactly the j layers in front of the cut, with one size each *)
Theorem c10_cut_layers : forall f j c, wf_frame f = true -> (j < length (frame_chain f))%nat ->
  (1 <= c < min_len (lp (nth j (frame_chain f) dummy_layer)))%nat ->
  exists m,
    parse_packet empty_pcfg empty_msg
      (firstn (length (concat (map lhdr (firstn j (frame_chain f)))) + c) (encode_frame f)) = Ok m /\
    length (mgetLI m cLayerStack) = j /\ length (mgetLI m cLayerSize) = j.
Proof. exact cut_layers. Qed.
Print Assumptions c10_cut_layers.

(* no column outside the ethertype and the VLAN id is written by two headers of a frame (outside a tunnel) *)
Theorem c10_columns_written_once : forall f, wf_frame f = true -> NoDup (fkeys (applied false (frame_chain f))).
Proof. exact frame_applied_nodup. Qed.
Print Assumptions c10_columns_written_once.

(* ---- EVERY capture length (sixth round; Proofs/FrameAnyCutP.v) ---------------------------------------------------
   The property quantifies over "forall capture lengths 0..len(frame)".  c10_truncated / c10_cut_true_or_unset cover a
   capture that ends before the minimal length of the header it falls into; c10_full_capture the complete frame.  The
   theorem below covers ALL lengths n (beyond the frame's length the capture is the frame): also a cut exactly at a
   header boundary -- including right behind an MPLS stack, where the dissector cannot see the IP version nibble and
   reports no ethertype --, a cut through an MPLS stack (the complete entries in front of the cut are reported), through
   an SRv6 segment list (the complete segments), through TCP options or behind the first two bytes of an ICMP header
   (the fixed part is enough), and a cut behind the last header.
   For every well-formed frame f and EVERY n: the capture is dissected without error; every column other than the
   ethertype, the VLAN id (they report the last tag seen: last clause) and the two layer lists
     - equals the value the COMPLETE frame gives it, or
     - is unset, or
     - (MPLS labels, MPLS TTLs, SRv6 segments of a stack / list the capture cuts through) is a prefix of the complete
       frame's list: every label / TTL / segment reported is the true one at its position;
   and the layer stack is a prefix of the frame's layer list, with one size per layer. *)
From GF Require Import Proofs.FrameAnyCutP.
Theorem c10_any_capture_length : forall f n, wf_frame f = true ->
  exists m, parse_packet empty_pcfg empty_msg (firstn n (encode_frame f)) = Ok m /\
    (forall k, k <> cEtype -> k <> cVlanId -> k <> cLayerStack -> k <> cLayerSize ->
       alookup (cols m) k = alookup (cols (ref_frame f)) k \/
       alookup (cols m) k = None \/
       exists va vr, alookup (cols m) k = Some va /\ alookup (cols (ref_frame f)) k = Some vr /\ vprefix va vr) /\
    (exists k, mgetLI m cLayerStack = firstn k (map (fun x => layer_code (fst x)) (frame_layers f)) /\
               length (mgetLI m cLayerSize) = length (mgetLI m cLayerStack) /\
               (* all sizes but possibly the last one -- the header the capture ends in -- are the headers' true sizes *)
               firstn (k - 1) (mgetLI m cLayerSize) = firstn (k - 1) (map snd (frame_layers f))) /\
    (* ... and every column written by a header that lies COMPLETELY inside the capture (the first j headers, whenever
       their bytes fit into what was captured; `applied`: the columns they write, none once inside a tunnel) HAS the
       complete frame's value: "agrees with the model on every field whose header lies completely inside the capture" *)
    (forall j k, (j <= length (frame_chain f))%nat ->
       (length (concat (map lhdr (firstn j (frame_chain f)))) <= length (firstn n (encode_frame f)))%nat ->
       In k (fkeys (applied false (firstn j (frame_chain f)))) ->
       alookup (cols m) k = alookup (cols (ref_frame f)) k) /\
    (* ... and the two columns several headers write -- the ethertype and the VLAN id -- are unset or carry a TRUE
       ethertype field / VLAN tag of the frame (of a header in front of the IP header: tag_val, etypes) *)
    (forall k, k = cEtype \/ k = cVlanId ->
       alookup (cols m) k = None \/ exists v, alookup (cols m) k = Some v /\ tag_val f k v).
Proof. exact any_cut. Qed.
Print Assumptions c10_any_capture_length.

(* what the dissectors of the variable-length headers do on a header the capture cuts through (every field value,
   every number of complete entries, every remainder): the complete label entries / segments in front of the cut *)
Theorem c10_mpls_stack_cut : forall ports base m ls k tailb,
  forallb wf_label ls = true -> (1 <= k < length ls)%nat -> (length tailb < 4)%nat ->
  run_parser ports PMPLS base m (mpls_open (firstn k ls) ++ tailb) =
  Ok ((if base then assign [(cMplsLabel, VLI (map fst (firstn k ls))); (cMplsTtl, VLI (map snd (firstn k ls)))] else (fun x => x))
        (add_layer m PMPLS), 4 * N.of_nat k, PNone).
Proof. exact mpls_step_partial. Qed.
Print Assumptions c10_mpls_stack_cut.

Theorem c10_srv6_list_cut : forall ports base m next sl segs k tailb,
  wf_srh (sl, segs) = true -> mgetLB m cRhAddrs = [] -> (k < length segs)%nat -> (length tailb < 16)%nat ->
  run_parser ports PV6Route base m (srh8 next sl segs ++ concat (firstn k segs) ++ tailb) =
  Ok ((if base then assign [(cRhSegLeft, VI sl); (cRhAddrs, VLB (firstn k segs))] else (fun x => x)) (add_layer m PV6Route),
      8 + 16 * lenN segs, next_proto next).
Proof. exact srh_step. Qed.
Print Assumptions c10_srv6_list_cut.

(* non-vacuity: generated frame 3 of seed 1 carries four MPLS labels; a capture that ends one byte into its third
   label entry reports exactly the first two labels and TTLs, three layers, no addresses; generated frame 12 carries an
   SRv6 header with three segments; a capture that ends five bytes into the second segment reports the first one *)
Example c10_any_capture_nonvacuous :
  let f := gcase gen_frame 1 2 in
  let n := (14 + 4 * length (fVlans f) + 9)%nat in
  wf_frame f = true /\ lenN (fMpls f) = 4 /\
  match parse_packet empty_pcfg empty_msg (firstn n (encode_frame f)) with
  | Ok m => mgetLI m cMplsLabel = firstn 2 (map fst (fMpls f)) /\ mgetLI m cMplsTtl = firstn 2 (map snd (fMpls f)) /\
            mgetLI m cLayerStack = firstn (2 + length (fVlans f)) (map (fun x => layer_code (fst x)) (frame_layers f)) /\
            alookup (cols m) cSrcAddr = None /\
            (* the Ethernet header lies completely inside the capture: its columns are there, with the frame's values *)
            alookup (cols m) cSrcMac = Some (VI (fSrc f)) /\ alookup (cols m) cDstMac = Some (VI (fDst f)) /\
            In cSrcMac (fkeys (applied false (firstn 1 (frame_chain f)))) /\
            (* the ethertype reported is the one in front of the label stack (0x8847), a true ethertype field of the frame *)
            alookup (cols m) cEtype = Some (VI 34887) /\ In 34887 (etypes f)
  | _ => False end.
Proof. vm_compute. repeat split; auto 10. Qed.

Example c10_any_capture_nonvacuous_srv6 :
  let f := gcase gen_frame 1 11 in
  let j := S (length (front_chain f)) in
  let n := (length (concat (map lhdr (firstn j (frame_chain f)))) + 8 + 16 + 5)%nat in
  wf_frame f = true /\
  match fOuter f with L3v6 h => match i6Srh h with Some (_, segs) =>
    lenN segs = 3 /\
    match parse_packet empty_pcfg empty_msg (firstn n (encode_frame f)) with
    | Ok m => mgetLB m cRhAddrs = firstn 1 segs /\ alookup (cols m) cSrcPort = None
    | _ => False end
  | None => False end | _ => False end.
Proof. vm_compute. repeat split. Qed.

(* ... and through IPFIX: a dataLinkFrameSection (element 315) that carries the first n bytes of a frame, for EVERY n,
   dissected into ANY record message that has no layers and no segment list yet *)
From GF Require Import Proofs.SFlowE2E.
Theorem c10_ipfix_frame_section_any_length : forall f n m0 base up,
  wf_frame f = true -> base_ok m0 ->
  exists m1, parse_packet empty_pcfg m0 (firstn n (encode_frame f)) = Ok m1 /\ cols_ok m0 m1 f /\ layers_ok m1 f /\
    complete_ok m0 m1 f (length (firstn n (encode_frame f))) /\ tags_ok m0 m1 f /\
    nf_field empty_prodcfg 10 base up m0 315 (firstn n (encode_frame f)) =
    Ok (let m2 := msetI m1 cPackets 1 in if mgetI m2 cBytes =? 0 then msetI m2 cBytes (lenN (firstn n (encode_frame f))) else m2).
Proof. exact ipfix_frame_section_cut. Qed.
Print Assumptions c10_ipfix_frame_section_any_length.
