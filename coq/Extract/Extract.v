(* Extraction of the executable model, generators and printers.  ExtrOcamlBasic only:
   bool, option, unit, list, prod, sumbool, sumor map to OCaml's; N, positive, Z, nat,
   ascii, string stay the extracted inductive types.  No Extract Constant. *)
From Coq Require Import ExtrOcamlBasic.
From GF Require Import Drivers.D05 Drivers.D03 Drivers.D06 Drivers.D04 Drivers.D10 Drivers.D13 Drivers.D14 Drivers.D15 Drivers.D16 Drivers.D19 Drivers.D17 Drivers.D08 Drivers.D11.
Extraction Language OCaml.
Extraction "gfext.ml" c05_gen c05_run c03_gen c03_run c06_gen c06_run c04_gen c04_run c10_gen c10_run c09_gen c09_run c13_gen c13_run c14_gen c14_run c16_gen c16_run c16_run_pinned c19_gen c19_run c15_gen c15_run c17_gen c17_run c08t_run c11_gen c02_run c07p_run.
