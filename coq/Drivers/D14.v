(* Entry points for C14 (mapping files): the abstract configuration arrives as tokens next to the
   YAML text the implementation loads. *)
From Coq Require Import String Ascii NArith ZArith List Bool.
From GF Require Import Base.Res Base.Bytes Base.Layout Base.Gen Model.Msg Model.Packet Model.ProdNF Model.Cfg Model.Pipe
     Model.Pb Model.Format Spec.GenPipe Drivers.D06 Drivers.D10 Drivers.D13.
Import ListNotations.
Local Open Scope string_scope.
Open Scope N_scope.

Definition tb (n : N) : bool := negb (n =? 0).

(* cfg (custom name idx type arr | nf ver penp pen type dest little | layer key encap off len dest little |
        port tcp dst port parser)* end rest *)
Fixpoint parse_cfg (fuel : nat) (l : list tok) (a : acfg) : acfg * list tok :=
  match fuel with
  | O => (a, l)
  | S fu =>
      match l with
      | TS "custom" :: TS name :: TN idx :: TN ty :: TN arr :: r =>
          parse_cfg fu r {| aCustoms := aCustoms a ++ [{| cName := name; cIndex := idx;
                              cType := if ty =? 0 then PTVarint else if ty =? 1 then PTString else PTOther;
                              cArray := tb arr |}];
                            aNf := aNf a; aLayers := aLayers a; aPorts := aPorts a |}
      | TS "nf" :: TN ver :: TN penp :: TN pen :: TN ty :: TS dest :: TN little :: r =>
          parse_cfg fu r {| aCustoms := aCustoms a;
                            aNf := aNf a ++ [{| aNfVer := ver; aNfPenP := tb penp; aNfPen := pen; aNfType := ty;
                                                aNfDest := dest; aNfLittle := tb little |}];
                            aLayers := aLayers a; aPorts := aPorts a |}
      | TS "layer" :: TS key :: TN encap :: TN off :: TN len :: TS dest :: TN little :: r =>
          parse_cfg fu r {| aCustoms := aCustoms a; aNf := aNf a;
                            aLayers := aLayers a ++ [{| aLKey := key; aLEncap := tb encap; aLOff := Z.of_N off;
                                                        aLLen := Z.of_N len; aLDest := dest; aLLittle := tb little |}];
                            aPorts := aPorts a |}
      | TS "port" :: TN tcp :: TN dst :: TN port :: TN pp :: r =>
          parse_cfg fu r {| aCustoms := aCustoms a; aNf := aNf a; aLayers := aLayers a;
                            aPorts := aPorts a ++ [{| rTcp := tb tcp; rDst := tb dst; rPort := port;
                                                      rParser := if pp =? 0 then PPTeredo else if pp =? 1 then PPGre else PPGeneve |}] |}
      | TS "end" :: r => (a, r)
      | _ => (a, l)
      end
  end.

Definition show_step_v (r : res stepres) : list tok :=
  match r with
  | Ok (_, o, ms) =>
      show_outcome o :: TN (lenN ms) ::
        flat_map (fun m => List.app (show_msg m) [TS "jsonok"; TS "keysok"; TS "agree"; TS "keyok"]) ms
  | Err e => [err_tok e] | Panic => [TS "panic"] | OutOfFuel => [TS "fuel"]
  end.

Fixpoint cfg_run (k : pipekind) (cfg : prodcfg) (st : pstate) (h : list (exporter * N * bytes)) : list tok :=
  match h with
  | [] => []
  | (e, tr, d) :: r =>
      let s := pipe_step k cfg st e tr d in
      List.app (show_step_v s) (TS "|" :: cfg_run k cfg (step_state st s) r)
  end.

(* fmt (field name | rename name new | render name id | key name)* cfg ... : the formatter section *)
Fixpoint parse_fmt (fuel : nat) (l : list tok) (f : afmt) : afmt * list tok :=
  match fuel with
  | O => (f, l)
  | S fu =>
      match l with
      | TS "field" :: TS n :: r =>
          parse_fmt fu r {| fFields := fFields f ++ [n]; fRename := fRename f; fRender := fRender f; fKeys := fKeys f |}
      | TS "rename" :: TS a :: TS b :: r =>
          parse_fmt fu r {| fFields := fFields f; fRename := fRename f ++ [(a, b)]; fRender := fRender f; fKeys := fKeys f |}
      | TS "renameb" :: TS a :: TB b :: r =>
          (* a new name given as bytes (any characters) *)
          parse_fmt fu r {| fFields := fFields f; fRename := fRename f ++ [(a, string_of_list_ascii (map ascii_of_N b))];
                            fRender := fRender f; fKeys := fKeys f |}
      | TS "render" :: TS a :: TS b :: r =>
          parse_fmt fu r {| fFields := fFields f; fRename := fRename f; fRender := fRender f ++ [(a, b)]; fKeys := fKeys f |}
      | TS "key" :: TS n :: r =>
          parse_fmt fu r {| fFields := fFields f; fRename := fRename f; fRender := fRender f; fKeys := fKeys f ++ [n] |}
      | TS "cfg" :: r => (f, r)
      | _ => (f, l)
      end
  end.

Definition opt_tok (o : option bytes) : tok := match o with Some b => TB b | None => TS "oom" end.

(* the same with the JSON and text BYTES of every message under the formatter configuration (Model/Format.v) *)
Definition show_step_f (fc : fmtc) (r : res stepres) : list tok :=
  match r with
  | Ok (_, o, ms) =>
      show_outcome o :: TN (lenN ms) ::
        flat_map (fun m => List.app (show_msg m)
                    [TS "j"; opt_tok (format_json fc m); TS "t"; opt_tok (format_text fc m);
                     TS "jsonok"; TS "keysok"; TS "agree"; TS "k"; opt_tok (msg_key fc m); TS "keyok"]) ms
  | Err e => [err_tok e] | Panic => [TS "panic"] | OutOfFuel => [TS "fuel"]
  end.

Fixpoint fcfg_run (fc : fmtc) (k : pipekind) (cfg : prodcfg) (st : pstate) (h : list (exporter * N * bytes)) : list tok :=
  match h with
  | [] => []
  | (e, tr, d) :: r =>
      let s := pipe_step k cfg st e tr d in
      List.app (show_step_f fc s) (TS "|" :: fcfg_run fc k cfg (step_state st s) r)
  end.

Definition c14_run (inp : list tok) : list tok :=
  match inp with
  | TS "getbytes" :: TB d :: TN off :: TN len :: TN sh :: _ =>
      match get_bytes d (Z.of_N off - 1000) (Z.of_N len - 1000) (tb sh) with
      | Ok b => [TB b] | Panic => [TS "panic"] | _ => [TS "err"]
      end
  | TS _ :: TS k :: TS _ :: TS "fmt" :: r0 =>
      let '(f, r) := parse_fmt (length r0) r0 empty_afmt in
      let '(a, rest) := parse_cfg (length r) r empty_acfg in
      match compile a, compile_fmt f (aCustoms a) with
      | Some cfg, Some fc => fcfg_run fc (kind_of k) cfg init_pstate (toks_hist rest)
      | _, _ => [TS "cfgerr"]
      end
  | TS _ :: TS k :: TS _ :: TS "cfg" :: r =>
      let '(a, rest) := parse_cfg (length r) r empty_acfg in
      match compile a with
      | Some cfg => cfg_run (kind_of k) cfg init_pstate (toks_hist rest)
      | None => [TS "cfgerr"]
      end
  | _ => [TS "badinput"]
  end.

(* histories for the mapping checks: the mixed histories of C13 *)
Definition c14_gen (stream seed i : N) : list tok * list tok :=
  let h := gcase gen_mixed seed i in
  (TS "hist" :: hist_toks h, []).
