(* Entry point of the documentation-table check of C08: which columns an element writes. *)
From Coq Require Import String NArith List Bool.
From GF Require Import Base.Res Spec.DocCheck.
Import ListNotations.
Local Open Scope string_scope.
Open Scope N_scope.

Definition c08t_run (inp : list tok) : list tok :=
  match inp with
  | [TS _; TN ver; TN id] => map TN (touches ver id)
  | [TS _; TS name] => match col_of_name name with Some c => [TN c] | None => [TS "nocol"] end
  | _ => [TS "badinput"]
  end.
