(* Entry point of the documentation-table check of C08: which columns an element writes. *)
From Coq Require Import String NArith List Bool.
From GF Require Import Base.Res Base.Bytes Model.SFlow Spec.DocCheck Spec.DocCheck2 Spec.EncNFv5 Spec.EncSFlow.
Import ListNotations.
Local Open Scope string_scope.
Open Scope N_scope.

Definition c08t_run (inp : list tok) : list tok :=
  match inp with
  | [TS _; TN ver; TN id] => map TN (touches ver id)
  | [TS "v5doc"] => map TS v5_doc_failures ++ [TS "end"]
  | [TS "sfdoc"] => map TS sflow_doc_failures ++ [TS "end"]
  | [TS "v5unknown"] => map TS v5_doc_unknown ++ [TS "end"]
  | [TS "sfunknown"] => map TS sflow_doc_unknown ++ [TS "end"]
  | [TS "v5layout"] => [TS (if v5_layout_ok then "ok" else "bad")]
  (* the probe datagrams the documentation theorems evaluate the model on, as bytes for the implementation *)
  | [TS "v5probe"] => [TB (encode_v5 probe_v5_hdr [probe_v5_rec])]
  | [TS "sfprobe"; TN k] =>
      let rs := if k =? 0 then [] else if k =? 1 then [probe_switch] else if k =? 2 then [probe_router]
                else if k =? 3 then [probe_gateway] else map hdr_rec (firstn 1 (skipn (N.to_nat (k - 10)) probe_frames)) in
      [TB (encode_sf (probe_pkt rs))]
  | [TS _; TS name] => match col_of_name name with Some c => [TN c] | None => [TS "nocol"] end
  | _ => [TS "badinput"]
  end.
