(* Entry points for C13 (serialisation). *)
From Coq Require Import String NArith List Bool.
From GF Require Import Base.Res Base.Bytes Base.Layout Base.Gen Model.Msg Model.Packet Model.ProdNF Model.Pipe
     Model.Pb Model.Json Model.Render Spec.GenPipe Spec.EncSFlow Drivers.D06 Drivers.D10.
Import ListNotations.
Local Open Scope string_scope.
Open Scope N_scope.

Definition show_step_bin (r : res stepres) : list tok * N :=
  match r with
  | Ok (_, o, ms) =>
      (show_outcome o :: TN (lenN ms) ::
         flat_map (fun m => [TS "b"; TB (frame (pb_encode m)); TS "j"; TB (json_default m); TS "t"; TB (text_default m);
                             TS "jsonok"; TS "keysok"; TS "agree"]) ms, lenN ms)
  | Err e => ([err_tok e], 0) | Panic => ([TS "panic"], 0) | OutOfFuel => ([TS "fuel"], 0)
  end.

Fixpoint fmt_run (k : pipekind) (cfg : prodcfg) (st : pstate) (h : list (exporter * N * bytes)) (n : N) : list tok :=
  match h with
  | [] => [TS "stream"; TN n; TS "streamok"]
  | (e, tr, d) :: r =>
      let s := pipe_step k cfg st e tr d in
      let '(ts, c) := show_step_bin s in
      List.app ts (TS "|" :: fmt_run k cfg (step_state st s) r (n + c))
  end.

Definition kind_of (k : string) : pipekind :=
  if String.eqb k "sflow" then PKSFlow else if String.eqb k "flow" then PKFlow else PKNetFlow.

(* mixed histories: the NetFlow histories with sFlow datagrams interleaved, through the auto pipe *)
Definition gen_mixed : Gen (list (exporter * N * bytes)) :=
  gdo h <- gen_pipe_case;
  gdo n <- grange 0 3;
  gdo ss <- glist (N.to_nat n) (gen_spkt_with gen_c09_sample_mixed);
  let e := {| eAddr := [10;0;0;9]; ePort := 6343 |} in
  gret (List.app (flat_map (fun p => [(e, 1700000000000000000, encode_sf p)]) ss) h).

Definition gen_ascii : Gen bytes :=
  gdo n <- grange 0 24;
  glist (N.to_nat n) (gdo c <- grand 4; if c =? 0 then gpick 34 [34; 92; 10; 13; 9; 8; 12; 0; 31; 60; 62; 38; 127; 47] else grand 128).

Definition c13_gen (stream seed i : N) : list tok * list tok :=
  match stream with
  | 0 => let h := gcase gen_mixed seed i in
         (TS "fmtchk" :: TS "flow" :: TS "none" :: hist_toks h, fmt_run PKFlow empty_prodcfg init_pstate h 0)
  | _ => let s := gcase gen_ascii seed i in ([TS "jsonstr"; TB s], [TB (esc_string s)])
  end.

Definition c13_run (inp : list tok) : list tok :=
  match inp with
  | TS "jsonstr" :: TB s :: _ => [TB (esc_string_utf8 s)]
  | TS "fmtstr" :: TB s :: _ => [TB (esc_string_utf8 s)]
  | TS _ :: TS k :: TS _ :: r => fmt_run (kind_of k) empty_prodcfg init_pstate (toks_hist r) 0
  | _ => [TS "badinput"]
  end.
