(* Entry point for C15 (parallel workers). *)
From Coq Require Import String NArith List Bool.
From GF Require Import Base.Res Base.Bytes Base.Gen Model.Msg Model.Packet Model.ProdNF Model.Pipe
     Spec.GenPipe Spec.EncSFlow Drivers.D06 Drivers.D10.
Import ListNotations.
Local Open Scope string_scope.
Open Scope N_scope.

Fixpoint count_msgs (k : pipekind) (cfg : prodcfg) (st : pstate) (h : list (exporter * N * bytes)) : N :=
  match h with
  | [] => 0
  | (e, tr, d) :: r =>
      let s := pipe_step k cfg st e tr d in
      (match s with Ok (_, _, ms) => lenN ms | _ => 0 end) + count_msgs k cfg (step_state st s) r
  end.

Definition c15_gen (stream seed i : N) : list tok * list tok :=
  let '(pro, w) := gcase gen_c15_case seed i in
  let sf := gcase (glist 3 (gen_spkt_with gen_c09_sample_mixed)) (seed + 1) i in
  let e := {| eAddr := [10;0;0;9]; ePort := 6343 |} in
  let w' := List.app w (map (fun p => (e, 5, encode_sf p)) sf) in
  let workers := nth (N.to_nat (i mod 5)) [2; 3; 8; 16; 32] 4 in
  (TS "par" :: TN workers :: TS "none" :: TN (lenN pro) :: hist_toks (List.app pro w'),
   [TS "msgs"; TN (count_msgs PKFlow empty_prodcfg init_pstate (List.app pro w')); TS "diff"; TN 0]).

Definition c15_run (inp : list tok) : list tok :=
  match inp with
  | TS _ :: TN _ :: TS _ :: TN _ :: r =>
      [TS "msgs"; TN (count_msgs PKFlow empty_prodcfg init_pstate (toks_hist r)); TS "diff"; TN 0]
  | _ => [TS "badinput"]
  end.
