(* Entry point for C19: the forced schedule of the harness, run on the repaired model. *)
From Coq Require Import String NArith List Bool Arith.
From GF Require Import Base.Res Model.First Model.FileT.
Import ListNotations.
Local Open Scope string_scope.

(* forced: sender 0 picks, a rotation is requested (forced2: two rotations), sender 0 writes; then the others run freely (here:
   one after the other, rotations in between) *)
Definition c19_run (inp : list tok) : list tok :=
  match inp with
  | TS _ :: TS mode :: TN ns :: TN per :: TN rot :: _ =>
      let n := N.to_nat ns * N.to_nat per in
      let forced2 := String.eqb mode "forced2" in
      let forced := String.eqb mode "forced" || forced2 in
      let ids := seq 0 (S n) in
      let rotate := S n in
      let sched := List.app (if forced2 then [0; rotate; rotate; 0] else if forced then [0; rotate; 0] else [0; 0])
                   (List.app (flat_map (fun i => [i; i]) (seq 1 n)) (repeat rotate (N.to_nat rot))) in
      let st := frun true sched (finit ids) in
      let missing := length (filter (fun w => negb (existsb (Nat.eqb (mid w)) (written st))) (snd st)) in
      [TS "errs"; TN (N.of_nat (errors st)); TS "missing"; TN (N.of_nat (if forced then missing else missing - 1));
       TS "dup"; TN 0; TS "garbled"; TN 0]
  | _ => [TS "badinput"]
  end.
Definition c19_gen (stream seed i : N) : list tok * list tok := ([TS "filet"], []).
