(* Entry points of the correspondence check for C04. *)
From Coq Require Import String NArith List Bool.
From GF Require Import Base.Res Base.Bytes Base.Layout Base.Gen Model.SFlow Spec.EncSFlow.
Import ListNotations.
Local Open Scope string_scope.
Open Scope N_scope.

Definition c04_gen (stream seed i : N) : list tok * list tok :=
  let p := gcase gen_spkt seed i in
  ([TS "sf"; TB (encode_sf p)], show_sf (Ok p)).

Definition c04_run (inp : list tok) : list tok :=
  match inp with
  | [TS _; TB d] => show_sf (decode_sf d)
  | _ => [TS "badinput"]
  end.
