(* Entry points for C11: the expected output of a generated history carries, on every v9 / IPFIX
   message, the rate the REFERENCE gives -- [latest] of the announcements made so far under the key
   read from the datagram's bytes (Spec/RefRate.v) -- written over whatever the model pipe put there.
   Theorem c11_history says the two are the same; the check compares the implementation with this. *)
From Coq Require Import String NArith List Bool.
From GF Require Import Base.Res Base.Bytes Base.Layout Base.Gen Model.Msg Model.NF Model.Packet Model.ProdNF
     Model.Pipe Spec.GenPipe Spec.RefRate Drivers.D06.
Import ListNotations.
Local Open Scope string_scope.
Open Scope N_scope.

Definition c11_gen (stream seed i : N) : list tok * list tok :=
  let h := gcase gen_pipe_case seed i in
  (TS "pipe" :: TS "netflow" :: TS "none" :: hist_toks h, rate_run empty_prodcfg init_pstate [] h).
