(* Entry points of the pipe-level correspondence checks. *)
From Coq Require Import String NArith List Bool.
From GF Require Import Base.Res Base.Bytes Base.Layout Base.Gen Model.Msg Model.NF Model.Packet Model.ProdNF
     Model.Pipe Spec.GenPipe Spec.RefStore Spec.Ghost Spec.Present.
Import ListNotations.
Local Open Scope string_scope.
Open Scope N_scope.

Definition hist_toks (h : list (exporter * N * bytes)) : list tok :=
  flat_map (fun x => let '(e, tr, d) := x in [TB (eAddr e); TN (ePort e); TN tr; TB d]) h.

Fixpoint toks_hist (l : list tok) : list (exporter * N * bytes) :=
  match l with
  | TB a :: TN p :: TN tr :: TB d :: r => ({| eAddr := a; ePort := p |}, tr, d) :: toks_hist r
  | _ => []
  end.

Definition c06_gen (stream seed i : N) : list tok * list tok :=
  let h := gcase gen_pipe_case seed i in
  (* expected: what the REFERENCE pipe (one flat map keyed by exporter, version, domain, id) shows *)
  (TS "pipe" :: TS "netflow" :: TS "none" :: hist_toks h, rnf_run empty_prodcfg rinit_pstate h).

Definition c06_run (inp : list tok) : list tok :=
  match inp with
  | TS _ :: TS k :: TS _ :: r =>
      pipe_run (if String.eqb k "sflow" then PKSFlow else if String.eqb k "flow" then PKFlow else PKNetFlow)
               empty_prodcfg init_pstate (toks_hist r)
  | _ => [TS "badinput"]
  end.

(* C02: the ghost allocation estimate of Spec/Ghost.v for every datagram of a history *)
Definition c02_run (inp : list tok) : list tok :=
  match inp with
  | TS _ :: TS k :: TS _ :: r =>
      gh_run (if String.eqb k "sflow" then PKSFlow else if String.eqb k "flow" then PKFlow else PKNetFlow)
             empty_prodcfg init_pstate (toks_hist r)
  | _ => [TS "badinput"]
  end.

(* C07: the number of complete flow records physically present in every datagram of a history (Spec/Present.v for
   v9 / IPFIX, in the template state the datagram meets; (len - 24) / 48 for NetFlow v5) *)
Fixpoint present_run (cfg : prodcfg) (st : pstate) (h : list (exporter * N * bytes)) : list tok :=
  match h with
  | [] => []
  | (e, tr, d) :: r =>
      let n := match rd 2 d with
               | Ok (ver, d0) =>
                   if ver =? 5 then (lenN d - 24) / 48
                   else if (ver =? 9) || (ver =? 10)
                        then N.of_nat (present_nf_body (tstores_get (psT st) (exp_id e)) ver d0) else 0
               | _ => 0
               end in
      TN n :: TS "|" :: present_run cfg (step_state st (nf_step cfg st e tr d)) r
  end.
Definition c07p_run (inp : list tok) : list tok :=
  match inp with
  | TS _ :: TS _ :: TS _ :: r => present_run empty_prodcfg init_pstate (toks_hist r)
  | _ => [TS "badinput"]
  end.
