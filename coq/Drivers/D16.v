(* Entry points for C16: the forced first-contact schedules. *)
From Coq Require Import String NArith List Bool Arith.
From GF Require Import Base.Res Model.First.
Import ListNotations.
Local Open Scope string_scope.

(* the harness parks every worker that misses, then releases the parked workers one at a time in
   the given order (index into the currently parked list), each running to completion *)
Fixpoint remove_nth {A} (i : nat) (l : list A) : list A :=
  match l, i with [], _ => [] | _ :: r, O => r | x :: r, S k => x :: remove_nth k r end.
Fixpoint release_sched (fuel : nat) (waiting : list nat) (order : list nat) : list nat :=
  match fuel, waiting with
  | O, _ | _, [] => []
  | S fu, _ =>
      let idx := match order with [] => 0 | o :: _ => Nat.modulo o (length waiting) end in
      let w := nth idx waiting 0 in
      w :: w :: release_sched fu (remove_nth idx waiting) (tl order)
  end.
Definition forced_schedule (k : nat) (order : list nat) : list nat :=
  seq 0 k ++ release_sched k (seq 0 k) order.

Definition show_lost (base : nat) (st : state) : list tok :=
  TS "lost" :: TN (N.of_nat (length (lost st))) :: map (fun t => TN (N.of_nat t)) (lost st).

Definition c16_run (inp : list tok) : list tok :=
  match inp with
  | TS _ :: TS mode :: TN k :: r =>
      let order := flat_map (fun t => match t with TN n => [N.to_nat n] | _ => [] end) r in
      let base := if String.eqb mode "tmpl" then 256 else 100 in
      let ts := map (fun i => base + i) (seq 0 (N.to_nat k)) in
      show_lost base (run true (forced_schedule (N.to_nat k) order) (init ts))
  | _ => [TS "badinput"]
  end.

(* what the pinned protocol does on the same schedule (printed into the evidence as a model check) *)
Definition c16_run_pinned (inp : list tok) : list tok :=
  match inp with
  | TS _ :: TS mode :: TN k :: r =>
      let order := flat_map (fun t => match t with TN n => [N.to_nat n] | _ => [] end) r in
      let base := if String.eqb mode "tmpl" then 256 else 100 in
      let ts := map (fun i => base + i) (seq 0 (N.to_nat k)) in
      show_lost base (run false (forced_schedule (N.to_nat k) order) (init ts))
  | _ => [TS "badinput"]
  end.

Definition c16_gen (stream seed i : N) : list tok * list tok := ([TS "first"], []).
