(* Entry points of the correspondence check for C03. *)
From Coq Require Import String NArith List Bool.
From GF Require Import Base.Res Base.Bytes Base.Layout Base.Gen Model.NF Spec.EncNF Spec.GenNF.
Import ListNotations.
Local Open Scope string_scope.
Open Scope N_scope.

(* expected observation of a history of well-formed messages; "notwf" if the generator
   produced something outside the theorem's hypothesis (counted, never compared) *)
Fixpoint expected_hist (st : store) (ms : list amsg) : list tok :=
  match ms with
  | [] => []
  | m :: r =>
      if wf_msg st m then
        show_nfpkt (expected_pkt m) false ++ TS "|" :: expected_hist (expected_store st m) r
      else [TS "notwf"]
  end.

(* the same with the RFC's well-formedness only (no "Count covers the sets" clause) *)
Fixpoint expected_hist_rfc (st : store) (ms : list amsg) : list tok :=
  match ms with
  | [] => []
  | m :: r =>
      if wf_msg_rfc st m then
        show_nfpkt (expected_pkt m) false ++ TS "|" :: expected_hist_rfc (expected_store st m) r
      else [TS "notwf"]
  end.

Definition c03_gen (stream seed i : N) : list tok * list tok :=
  match stream with
  | 0 => let ms := gcase gen_nf_case seed i in
         (TS "nfh" :: map (fun m => TB (encode_nf m)) ms, expected_hist [] ms)
  | _ => let ms := gcase gen_v9_lowcount seed i in
         (TS "nfh" :: map (fun m => TB (encode_nf m)) ms, expected_hist_rfc [] ms)
  end.

Definition toks_bytes (l : list tok) : list bytes :=
  flat_map (fun t => match t with TB b => [b] | _ => [] end) l.

Definition c03_run (inp : list tok) : list tok :=
  match inp with
  | TS _ :: r => decode_nf_hist [] (toks_bytes r)
  | _ => [TS "badinput"]
  end.
