(* Entry point for C17: the trace monitor applied to an observed trace of the real receiver. *)
From Coq Require Import String NArith List Bool Arith.
From GF Require Import Base.Res Model.First Model.Recv Spec.TraceSpec.
Import ListNotations.
Local Open Scope string_scope.

Fixpoint parse_events (fuel : nat) (l : list tok) : list event * list tok :=
  match fuel with
  | O => ([], l)
  | S fu =>
      match l with
      | TS "R" :: TN _ :: TN b :: r => let (es, rest) := parse_events fu r in (ERead (N.to_nat b) :: es, rest)
      | TS "S" :: TN id :: TN b :: TN _ :: r => let (es, rest) := parse_events fu r in (EStart (N.to_nat id) (N.to_nat b) :: es, rest)
      | TS "E" :: TN id :: TN _ :: r => let (es, rest) := parse_events fu r in (EEnd (N.to_nat id) :: es, rest)
      | TS "D" :: TN id :: TN b :: r => let (es, rest) := parse_events fu r in (EDrop (N.to_nat id) (N.to_nat b) :: es, rest)
      | _ => ([], l)
      end
  end.

(* input: trace #sockets #workers #queue #blocking events... <stop verdict> *)
Definition c17_run (inp : list tok) : list tok :=
  match inp with
  | TS _ :: TN _ :: TN _ :: TN _ :: TN bl :: r =>
      let (es, rest) := parse_events (length r) r in
      [TS (if trace_ok (negb (N.eqb bl 0)) es then "traceok" else "traceBAD"); TN (N.of_nat (length es))]
  | _ => [TS "badinput"]
  end.
Definition c17_gen (stream seed i : N) : list tok * list tok := ([TS "udp"], []).
