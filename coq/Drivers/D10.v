(* Entry points for C10 (packet dissection) and C09 (sFlow samples through the sFlow pipe). *)
From Coq Require Import String NArith List Bool.
From GF Require Import Base.Res Base.Bytes Base.Layout Base.Gen Model.Msg Model.Packet Model.SFlow Model.ProdNF
     Model.ProdSF Model.Pipe Spec.Frame Spec.EncSFlow Drivers.D06.
Import ListNotations.
Local Open Scope string_scope.
Open Scope N_scope.

Definition show_parse (r : res msg) : list tok :=
  match r with
  | Ok m => TS "ok" :: show_msg m
  | Err e => [err_tok e] | Panic => [TS "panic"] | OutOfFuel => [TS "fuel"]
  end.

Definition c10_gen (stream seed i : N) : list tok * list tok :=
  let f := gcase gen_frame seed i in
  ([TS "pkt"; TB (encode_frame f)], TS "ok" :: show_msg (ref_frame f)).

Definition c10_run (inp : list tok) : list tok :=
  match inp with
  | [TS _; TB d] => show_parse (parse_packet empty_pcfg empty_msg d)
  | _ => [TS "badinput"]
  end.

(* C09: datagrams of flow / expanded flow samples whose raw headers are captures of model frames *)
Definition gen_frame_header : Gen srec :=
  gdo f <- gen_frame;
  let b := encode_frame f in
  gdo full <- grand 3;
  gdo cut <- grand (lenN b + 1);
  gdo st <- grand 9;
  let cap := if full =? 0 then firstn (N.to_nat cut) b else b in
  gret (mk_header 1 (lenN b + st) st cap).

Definition gen_c09_record : Gen srec :=
  gdo k <- grand 3;
  if k =? 0 then gen_frame_header else gen_flow_record.

Definition gen_c09_sample : Gen ssample :=
  gdo x <- gbool;
  let fmt := if x then 3 else 1 in
  gdo seq <- g32;
  gdo st <- (if x then g32 else grand 256);
  gdo sv <- (if x then g32 else gval 24);
  gdo n <- grange 0 6;
  gdo recs <- glist (N.to_nat n) gen_c09_record;
  gdo vs <- g32s (if x then 7%nat else 5%nat);
  gret (fix_sample {| sKind := if x then SExpFlowS else SFlowS; sHdr := [fmt; 0; seq; st; sv];
                      sVals := vs ++ [n]; sRecs := recs |}).

Definition gen_c09_sample_mixed : Gen ssample :=
  gdo k <- grand 4; if k =? 0 then gen_sample else gen_c09_sample.

Definition c09_gen (stream seed i : N) : list tok * list tok :=
  let p := gcase (gen_spkt_with gen_c09_sample_mixed) seed i in
  let e := {| eAddr := [10;0;0;9]; ePort := 6343 |} in
  let h := [(e, 1700000000000000000 + i, encode_sf p)] in
  (TS "pipe" :: TS "sflow" :: TS "none" :: hist_toks h, pipe_run PKSFlow empty_prodcfg init_pstate h).

Definition c09_run (inp : list tok) : list tok :=
  match inp with
  | TS _ :: TS k :: TS _ :: r =>
      pipe_run (if String.eqb k "sflow" then PKSFlow else if String.eqb k "flow" then PKFlow else PKNetFlow)
               empty_prodcfg init_pstate (toks_hist r)
  | _ => [TS "badinput"]
  end.
