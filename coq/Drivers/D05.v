(* Entry points of the correspondence check for C05 (extracted to OCaml). *)
From Coq Require Import String NArith List.
From GF Require Import Base.Res Base.Bytes Base.Layout Base.Gen Model.NFv5 Spec.EncNFv5.
Import ListNotations.
Local Open Scope string_scope.
Open Scope N_scope.

(* (input line, expected observation by the specification) *)
Definition c05_gen (stream seed i : N) : list tok * list tok :=
  match stream with
  | 0 =>
      let '(h, rs) := gcase gen_v5_wf seed i in
      ([TS "v5"; TB (encode_v5 h rs)], show_v5 (Ok (h, rs)))
  | _ =>
      let '((h, rs), part) := gcase gen_v5_trunc seed i in
      ([TS "v5"; TB (encode_v5 h rs ++ part)],
       show_v5 (Ok (h, firstn (Nat.min (N.to_nat (v5_count h)) (length rs)) rs)))
  end.

Definition c05_run (inp : list tok) : list tok :=
  match inp with
  | [TS _; TB d] => show_v5 (decode_v5 d)
  | _ => [TS "badinput"]
  end.
