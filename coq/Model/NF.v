(* decoders/netflow/netflow.go + templates.go, function for function (repaired tree). *)
From Coq Require Import String NArith List Bool.
From GF Require Import Base.Res Base.Bytes Base.Layout.
Import ListNotations.
Open Scope N_scope.

(* packet.go: Field, TemplateRecord, NFv9OptionsTemplateRecord / IPFIXOptionsTemplateRecord *)
Record field := { fPenP : bool; fType : N; fLen : N; fPen : N }.
Record trec := { tId : N; tCount : N; tFields : list field }.
(* oA,oB = ScopeLength,OptionLength (v9)  |  FieldCount,ScopeFieldCount (IPFIX) *)
Record orec := { oId : N; oA : N; oB : N; oScopes : list field; oOpts : list field }.
Inductive tmpl := TplData (r : trec) | TplOptV9 (r : orec) | TplOptIPFIX (r : orec).

(* DataField; Value is an interface{}: nil (None) or []byte *)
Record dfield := { dPenP : bool; dType : N; dPen : N; dVal : option bytes }.
Definition drec := list dfield.
Definition odrec := (list dfield * list dfield)%type.

Inductive flowset :=
| FSTemplate (id len : N) (rs : list trec)
| FSOptV9 (id len : N) (rs : list orec)
| FSOptIPFIX (id len : N) (rs : list orec)
| FSData (id len : N) (rs : list drec)
| FSOptData (id len : N) (rs : list odrec)
| FSRaw (id len : N) (b : bytes).

(* ---- template store: templates.go, one BasicTemplateSystem ------------------------- *)
(* (uint64(version)<<48) | (uint64(obsDomainId)<<16) | uint64(templateId); the operands are
   uint16/uint32/uint16 so the three bit ranges are disjoint and | is + *)
Definition tkey (v dom id : N) : N := v * 281474976710656 + dom * 65536 + id.
Definition store := list (N * tmpl).
Fixpoint store_get (st : store) (k : N) : option tmpl :=
  match st with
  | [] => None
  | (k', t) :: r => if k' =? k then Some t else store_get r k
  end.
Definition store_add (st : store) (k : N) (t : tmpl) : store := (k, t) :: st.

(* ---- template sets ----------------------------------------------------------------- *)
(* DecodeField / the inner loop of DecodeTemplateSet: pen = (version == 10) resp. the pen
   argument; the enterprise bit is removed from Type *)
Definition dec_field (pen : bool) (d : bytes) : res (field * bytes) :=
  let* (ty, d1) := rd 2 d in
  let* (ln, d2) := rd 2 d1 in
  if pen && (32768 <=? ty) then
    let* (p, d3) := rd 4 d2 in
    Ok ({| fPenP := true; fType := ty - 32768; fLen := ln; fPen := p |}, d3)
  else Ok ({| fPenP := false; fType := ty; fLen := ln; fPen := 0 |}, d2).

Fixpoint dec_field_list (n : nat) (pen : bool) (d : bytes) : res (list field * bytes) :=
  match n with
  | O => Ok ([], d)
  | S k =>
      let* (f, d1) := dec_field pen d in
      let* (fs, d2) := dec_field_list k pen d1 in
      Ok (f :: fs, d2)
  end.

(* DecodeTemplateSet: for payload.Len() >= 4 *)
Fixpoint dec_template_set (fuel : nat) (ver : N) (d : bytes) : res (list trec) :=
  match fuel with
  | O => OutOfFuel
  | S fu =>
      if Nat.leb 4 (length d) then
        let* (id, d1) := rd 2 d in
        let* (cnt, d2) := rd 2 d1 in
        let* (fs, d3) := dec_field_list (N.to_nat cnt) (ver =? 10) d2 in
        let* rs := dec_template_set fu ver d3 in
        Ok ({| tId := id; tCount := cnt; tFields := fs |} :: rs)
      else Ok []
  end.

(* DecodeNFv9OptionsTemplateSet *)
Fixpoint dec_v9_opt_template_set (fuel : nat) (d : bytes) : res (list orec) :=
  match fuel with
  | O => OutOfFuel
  | S fu =>
      if Nat.leb 4 (length d) then
        let* (id, d1) := rd 2 d in
        let* (sl, d2) := rd 2 d1 in
        let* (ol, d3) := rd 2 d2 in
        let* (sc, d4) := dec_field_list (N.to_nat (sl / 4)) false d3 in
        let* (op, d5) := dec_field_list (N.to_nat (ol / 4)) false d4 in
        let* rs := dec_v9_opt_template_set fu d5 in
        Ok ({| oId := id; oA := sl; oB := ol; oScopes := sc; oOpts := op |} :: rs)
      else Ok []
  end.

(* DecodeIPFIXOptionsTemplateSet *)
Fixpoint dec_ipfix_opt_template_set (fuel : nat) (d : bytes) : res (list orec) :=
  match fuel with
  | O => OutOfFuel
  | S fu =>
      if Nat.leb 4 (length d) then
        let* (id, d1) := rd 2 d in
        let* (fc, d2) := rd 2 d1 in
        let* (sfc, d3) := rd 2 d2 in
        let* (sc, d4) := dec_field_list (N.to_nat sfc) true d3 in
        if fc <? sfc then Err ENeg else
        let* (op, d5) := dec_field_list (N.to_nat (fc - sfc)) true d4 in
        let* rs := dec_ipfix_opt_template_set fu d5 in
        Ok ({| oId := id; oA := fc; oB := sfc; oScopes := sc; oOpts := op |} :: rs)
      else Ok []
  end.

(* ---- data sets ---------------------------------------------------------------------- *)
(* GetTemplateSize: the least number of bytes one record occupies; a variable-length field
   (length 0xffff) occupies at least its one-byte length prefix *)
Definition field_min (f : field) : nat := if fLen f =? 65535 then 1%nat else N.to_nat (fLen f).
Definition template_size (fs : list field) : nat := fold_right (fun f a => (field_min f + a)%nat) O fs.

(* one field of DecodeDataSetUsingFields; the value is payload.Next(finalLength), unchecked *)
Definition dec_value (f : field) (d : bytes) : res (dfield * bytes) :=
  let* (flen, d1) :=
    (if fLen f =? 65535 then
       let* (l8, d1) := rd 1 d in
       if l8 =? 255 then rd 2 d1 else Ok (l8, d1)
     else Ok (fLen f, d)) in
  let (v, d2) := next (N.to_nat flen) d1 in
  Ok ({| dPenP := fPenP f; dType := fType f; dPen := fPen f; dVal := Some v |}, d2).

Fixpoint dec_values (fs : list field) (d : bytes) : res (list dfield * bytes) :=
  match fs with
  | [] => Ok ([], d)
  | f :: fs' =>
      let* (v, d1) := dec_value f d in
      let* (vs, d2) := dec_values fs' d1 in
      Ok (v :: vs, d2)
  end.

Definition zero_dfield : dfield := {| dPenP := false; dType := 0; dPen := 0; dVal := None |}.

(* DecodeDataSetUsingFields *)
Definition dec_record (fs : list field) (d : bytes) : res (list dfield * bytes) :=
  if Nat.leb (template_size fs) (length d) then dec_values fs d
  else Ok (map (fun _ => zero_dfield) fs, d).

(* DecodeDataSet: a template whose records occupy no bytes cuts nothing *)
Fixpoint dec_data_loop (fuel : nat) (fs : list field) (d : bytes) : res (list drec) :=
  match fuel with
  | O => OutOfFuel
  | S fu =>
      if Nat.leb (template_size fs) (length d) then
        let* (r, d1) := dec_record fs d in
        let* rs := dec_data_loop fu fs d1 in
        Ok (r :: rs)
      else Ok []
  end.
Definition dec_data_set (fs : list field) (d : bytes) : res (list drec) :=
  if Nat.eqb (template_size fs) 0 then Ok [] else dec_data_loop (S (length d)) fs d.

(* DecodeOptionsDataSet *)
Fixpoint dec_optdata_loop (fuel : nat) (sc op : list field) (d : bytes) : res (list odrec) :=
  match fuel with
  | O => OutOfFuel
  | S fu =>
      if Nat.leb (template_size sc + template_size op) (length d) then
        let* (s, d1) := dec_record sc d in
        let* (o, d2) := dec_record op d1 in
        let* rs := dec_optdata_loop fu sc op d2 in
        Ok ((s, o) :: rs)
      else Ok []
  end.
Definition dec_optdata_set (sc op : list field) (d : bytes) : res (list odrec) :=
  if Nat.eqb (template_size sc + template_size op) 0 then Ok []
  else dec_optdata_loop (S (length d)) sc op d.

(* ---- flow sets ----------------------------------------------------------------------- *)
Definition add_trecs (st : store) (ver dom : N) (rs : list trec) : store :=
  fold_left (fun s r => store_add s (tkey ver dom (tId r)) (TplData r)) rs st.
Definition add_orecs (st : store) (ver dom : N) (mk : orec -> tmpl) (rs : list orec) : store :=
  fold_left (fun s r => store_add s (tkey ver dom (oId r)) (mk r)) rs st.

(* result of one flow set: the set, whether it reported "template not found", the store,
   the remaining payload *)
Definition fsres := (flowset * bool * store * bytes)%type.

(* DecodeMessageCommonFlowSet *)
Definition dec_flowset (st : store) (dom ver : N) (d : bytes) : res fsres :=
  let* (id, d1) := rd 2 d in
  let* (len, d2) := rd 2 d1 in
  if len <? 4 then Err ENeg else
  let (body, rest) := next (N.to_nat (len - 4)) d2 in
  if (id =? 0) && (ver =? 9) then
    let* rs := dec_template_set (S (length body)) ver body in
    Ok (FSTemplate id len rs, false, add_trecs st ver dom rs, rest)
  else if (id =? 1) && (ver =? 9) then
    let* rs := dec_v9_opt_template_set (S (length body)) body in
    Ok (FSOptV9 id len rs, false, add_orecs st ver dom TplOptV9 rs, rest)
  else if (id =? 2) && (ver =? 10) then
    let* rs := dec_template_set (S (length body)) ver body in
    Ok (FSTemplate id len rs, false, add_trecs st ver dom rs, rest)
  else if (id =? 3) && (ver =? 10) then
    let* rs := dec_ipfix_opt_template_set (S (length body)) body in
    Ok (FSOptIPFIX id len rs, false, add_orecs st ver dom TplOptIPFIX rs, rest)
  else if 256 <=? id then
    match store_get st (tkey ver dom id) with
    | None => Ok (FSRaw id len body, true, st, rest)
    | Some (TplData r) =>
        let* rs := dec_data_set (tFields r) body in
        Ok (FSData id len rs, false, st, rest)
    | Some (TplOptV9 r) | Some (TplOptIPFIX r) =>
        let* rs := dec_optdata_set (oScopes r) (oOpts r) body in
        Ok (FSOptData id len rs, false, st, rest)
    end
  else Err EOther.

(* DecodeMessageCommon:
   for i := 0; ((i < size && v9) || (uint16(read) < size && v10)) && payload.Len() > 0; i++ *)
Fixpoint dec_common (fuel : nat) (st : store) (dom size ver : N) (start : nat) (i : N) (d : bytes)
  : res (list flowset * bool * store) :=
  match fuel with
  | O => OutOfFuel
  | S fu =>
      let read := N.of_nat (start - length d) mod 65536 in
      if (((i <? size) && (ver =? 9)) || ((read <? size) && (ver =? 10))) && negb (Nat.eqb (length d) 0) then
        let* (fs, tnf, st1, d1) := dec_flowset st dom ver d in
        let* (fss, tnf', st2) := dec_common fu st1 dom size ver start (i + 1) d1 in
        Ok (fs :: fss, tnf || tnf', st2)
      else Ok ([], false, st)
  end.

(* what the caller gets: the store is shared state, so it is updated even when the message
   fails half-way; out = decoded packet and the template-not-found flag *)
Record nfpkt := { pVer : N; pHdr : list N; pSets : list flowset }.

(* the store after a failing message still holds the templates of the sets decoded before
   the failure: dec_common_st computes the store reached in every case *)
Fixpoint dec_common_st (fuel : nat) (st : store) (dom size ver : N) (start : nat) (i : N) (d : bytes) : store :=
  match fuel with
  | O => st
  | S fu =>
      let read := N.of_nat (start - length d) mod 65536 in
      if (((i <? size) && (ver =? 9)) || ((read <? size) && (ver =? 10))) && negb (Nat.eqb (length d) 0) then
        match dec_flowset st dom ver d with
        | Ok (_, _, st1, d1) => dec_common_st fu st1 dom size ver start (i + 1) d1
        | _ => st
        end
      else st
  end.

(* Count SystemUptime UnixSeconds SequenceNumber SourceId *)
Definition v9_hdr_ws : list nat := [2;4;4;4;4]%nat.
(* Length ExportTime SequenceNumber ObservationDomainId *)
Definition ipfix_hdr_ws : list nat := [2;4;4;4]%nat.

Definition nf_dom (ver : N) (h : list N) : N := if ver =? 9 then nth 4%nat h 0 else nth 3%nat h 0.
Definition nf_size (ver : N) (h : list N) : N :=
  if ver =? 9 then nth 0%nat h 0 else (nth 0%nat h 0 + 65536 - 16) mod 65536.

(* DecodeMessageNetFlow / DecodeMessageIPFIX after the version word *)
Definition decode_nf_body (st : store) (ver : N) (d : bytes) : res (nfpkt * bool * store) :=
  let* (h, d1) := rd_fields (if ver =? 9 then v9_hdr_ws else ipfix_hdr_ws) d in
  let* (fss, tnf, st') := dec_common (S (length d1)) st (nf_dom ver h) (nf_size ver h) ver (length d1) 0 d1 in
  Ok ({| pVer := ver; pHdr := h; pSets := fss |}, tnf, st').

Definition decode_nf_body_st (st : store) (ver : N) (d : bytes) : store :=
  match rd_fields (if ver =? 9 then v9_hdr_ws else ipfix_hdr_ws) d with
  | Ok (h, d1) => dec_common_st (S (length d1)) st (nf_dom ver h) (nf_size ver h) ver (length d1) 0 d1
  | _ => st
  end.

(* DecodeMessageVersion *)
Definition decode_nf (st : store) (d : bytes) : res (nfpkt * bool * store) :=
  let* (ver, d0) := rd 2 d in
  if (ver =? 9) || (ver =? 10) then decode_nf_body st ver d0 else Err EVersion.
Definition decode_nf_st (st : store) (d : bytes) : store :=
  match rd 2 d with
  | Ok (ver, d0) => if (ver =? 9) || (ver =? 10) then decode_nf_body_st st ver d0 else st
  | _ => st
  end.

(* ---- observation ----------------------------------------------------------------------- *)
Local Open Scope string_scope.
Definition show_field (f : field) : list tok :=
  [TN (if fPenP f then 1 else 0); TN (fType f); TN (fLen f); TN (fPen f)].
Definition show_trec (r : trec) : list tok :=
  TS "t" :: TN (tId r) :: TN (tCount r) :: TN (N.of_nat (length (tFields r))) :: flat_map show_field (tFields r).
Definition show_orec (r : orec) : list tok :=
  TS "o" :: TN (oId r) :: TN (oA r) :: TN (oB r) :: TN (N.of_nat (length (oScopes r)))
     :: TN (N.of_nat (length (oOpts r))) :: flat_map show_field (oScopes r) ++ flat_map show_field (oOpts r).
Definition show_dfield (f : dfield) : list tok :=
  [TN (if dPenP f then 1 else 0); TN (dType f); TN (dPen f);
   match dVal f with Some v => TB v | None => TS "nil" end].
Definition show_drec (r : drec) : list tok := TS "r" :: flat_map show_dfield r.
Definition show_odrec (r : odrec) : list tok :=
  TS "r" :: flat_map show_dfield (fst r) ++ TS "/" :: flat_map show_dfield (snd r).
Definition show_flowset (f : flowset) : list tok :=
  match f with
  | FSTemplate id len rs => TS "T" :: TN id :: TN len :: flat_map show_trec rs
  | FSOptV9 id len rs => TS "O9" :: TN id :: TN len :: flat_map show_orec rs
  | FSOptIPFIX id len rs => TS "O10" :: TN id :: TN len :: flat_map show_orec rs
  | FSData id len rs => TS "D" :: TN id :: TN len :: flat_map show_drec rs
  | FSOptData id len rs => TS "OD" :: TN id :: TN len :: flat_map show_odrec rs
  | FSRaw id len b => [TS "R"; TN id; TN len; TB b]
  end.
Definition show_nfpkt (p : nfpkt) (tnf : bool) : list tok :=
  TS (if tnf then "tnf" else "ok") :: TN (pVer p) :: map TN (pHdr p) ++
  TN (N.of_nat (length (pSets p))) :: flat_map show_flowset (pSets p).
Definition show_nf (r : res (nfpkt * bool * store)) : list tok :=
  match r with
  | Ok (p, tnf, _) => show_nfpkt p tnf
  | Err e => [err_tok e]
  | Panic => [TS "panic"]
  | OutOfFuel => [TS "fuel"]
  end.

(* a history of datagrams from one exporter over one template system *)
Fixpoint decode_nf_hist (st : store) (ds : list bytes) : list tok :=
  match ds with
  | [] => []
  | d :: r => show_nf (decode_nf st d) ++ TS "|" :: decode_nf_hist (decode_nf_st st d) r
  end.
