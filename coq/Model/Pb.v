(* Protobuf wire form of a flow message as protobuf-go writes it for pb/flow.proto (proto3:
   defaults omitted, fields in number order, repeated scalars packed, custom fields appended as
   unknown fields), and the varint length-prefix framing of format/binary (protodelim). *)
From Coq Require Import String NArith List Bool.
From GF Require Import Base.Res Base.Bytes Model.Msg.
Import ListNotations.
Open Scope N_scope.

(* base-128 varint, least significant group first; f+1 bytes at most *)
Fixpoint enc_varint_f (f : nat) (n : N) : bytes :=
  match f with
  | O => [n mod 128]
  | S k => if n <? 128 then [n] else (n mod 128 + 128) :: enc_varint_f k (n / 128)
  end.
Definition enc_varint (n : N) : bytes := enc_varint_f 9 n.

Fixpoint dec_varint_f (f : nat) (d : bytes) : option (N * bytes) :=
  match d with
  | [] => None
  | b :: r =>
      if b <? 128 then Some (b, r) else
      match f with
      | O => None
      | S k => match dec_varint_f k r with
               | Some (v, r') => Some ((b - 128) + 128 * v, r')
               | None => None
               end
      end
  end.
Definition dec_varint (d : bytes) : option (N * bytes) := dec_varint_f 9 d.

Definition tag (num wt : N) : bytes := enc_varint (num * 8 + wt).
Definition len_delim (num : N) (b : bytes) : bytes := tag num 2 ++ enc_varint (lenN b) ++ b.

Definition enc_col (m : msg) (k : N) : bytes :=
  match alookup (cols m) k with
  | Some (VI n) => if n =? 0 then [] else tag k 0 ++ enc_varint n
  | Some (VB b) => match b with [] => [] | _ => len_delim k b end
  | Some (VLI l) => match l with [] => [] | _ => len_delim k (concat (map enc_varint l)) end
  | Some (VLB l) => concat (map (len_delim k) l)
  | None => []
  end.
Definition enc_unk (u : ufield) : bytes :=
  if uVarint u then tag (uNum u) 0 ++ enc_varint (uInt u) else len_delim (uNum u) (uBytes u).

Definition pb_encode (m : msg) : bytes := concat (map (enc_col m) all_cols) ++ concat (map enc_unk (unk m)).

(* format/binary: varint length prefix, then the message *)
Definition frame (body : bytes) : bytes := enc_varint (lenN body) ++ body.

(* what a consumer does with a concatenated stream (cmd/enricher: protodelim.UnmarshalFrom loop) *)
Fixpoint split_frames (fuel : nat) (d : bytes) : option (list bytes) :=
  match fuel with
  | O => None
  | S fu =>
      match d with
      | [] => Some []
      | _ =>
          match dec_varint d with
          | None => None
          | Some (n, r) =>
              if lenN r <? n then None else
              match split_frames fu (skipn (N.to_nat n) r) with
              | Some fs => Some (firstn (N.to_nat n) r :: fs)
              | None => None
              end
          end
      end
  end.
