(* decoders/netflowlegacy/netflow.go *)
From Coq Require Import String NArith List.
From GF Require Import Base.Res Base.Bytes Base.Layout.
Import ListNotations.
Open Scope N_scope.

(* Count SysUptime UnixSecs UnixNSecs FlowSequence EngineType EngineId SamplingInterval *)
Definition v5_hdr_ws : list nat := [2;4;4;4;4;1;1;2]%nat.
(* SrcAddr DstAddr NextHop Input Output DPkts DOctets First Last SrcPort DstPort Pad1
   TCPFlags Proto Tos SrcAS DstAS SrcMask DstMask Pad2 *)
Definition v5_rec_ws : list nat := [4;4;4;2;2;4;4;4;4;2;2;1;1;1;1;2;2;1;1;2]%nat.

Definition v5rec := list N.
Definition v5pkt := (list N * list v5rec)%type.

(* for i := 0; i < Count && payload.Len() >= 48; i++ { BinaryDecoder(20 dests) } *)
Fixpoint v5_loop (count : nat) (d : bytes) : res (list v5rec) :=
  match count with
  | O => Ok []
  | S c =>
      if Nat.leb 48 (length d) then
        let* (r, d1) := rd_fields v5_rec_ws d in
        let* rs := v5_loop c d1 in
        Ok (r :: rs)
      else Ok []
  end.

Definition v5_count (h : list N) : N := nth 0 h 0.

(* DecodeMessage: the records slice holds exactly the records read *)
Definition decode_v5_body (d : bytes) : res v5pkt :=
  let* (h, d1) := rd_fields v5_hdr_ws d in
  let* rs := v5_loop (N.to_nat (v5_count h)) d1 in
  Ok (h, rs).

(* DecodeMessageVersion *)
Definition decode_v5 (d : bytes) : res v5pkt :=
  let* (v, d0) := rd 2 d in
  if v =? 5 then decode_v5_body d0 else Err EVersion.

(* The pinned tree (b451db1) pre-sized Records from Count and never cut it back:
   kept to state the defect as a theorem (Properties/C05.v, c05_pinned_refuted). *)
Definition zero_rec : v5rec := map (fun _ => 0) v5_rec_ws.
Definition decode_v5_pinned (d : bytes) : res v5pkt :=
  let* (p, _) := (let* x := decode_v5 d in Ok (x, tt)) in
  let (h, rs) := p in
  Ok (h, rs ++ repeat zero_rec (N.to_nat (v5_count h) - length rs)).

Definition show_v5 (r : res v5pkt) : list tok :=
  match r with
  | Ok (h, rs) =>
      TS "ok" :: map TN h ++ TN (N.of_nat (length rs)) :: flat_map (fun r => TS "r" :: map TN r) rs
  | Err e => [err_tok e]
  | Panic => [TS "panic"]
  | OutOfFuel => [TS "fuel"]
  end.
