(* decoders/sflow/sflow.go, function for function (repaired tree), over a uniform representation:
   every record/sample is its kind, its integer fields in wire order, its byte strings and its
   integer lists. *)
From Coq Require Import String NArith ZArith List Bool.
From GF Require Import Base.Res Base.Bytes Base.Layout.
Import ListNotations.
Open Scope N_scope.

Inductive rkind :=
| KNil          (* zero FlowRecord/CounterRecord left in a pre-sized slice *)
| KRaw          (* RawRecord (unknown data format) *)
| KHeader | KEth | KIPv4 | KIPv6 | KSwitch | KRouter | KGateway | KQueue | KAcl | KFunc
| KIfCounters | KEthCounters.

Record srec := { rFmt : N; rLen : N; rKind : rkind; rVals : list N; rBlobs : list bytes; rLists : list (list N) }.
Definition nil_rec : srec := {| rFmt := 0; rLen := 0; rKind := KNil; rVals := []; rBlobs := []; rLists := [] |}.

Inductive skind := SNil | SFlowS | SCounterS | SExpFlowS | SDropS.
(* sHdr = Format Length SampleSequenceNumber SourceIdType SourceIdValue;
   sVals = the integer fields of the sample struct in wire order, the record count last *)
Record ssample := { sKind : skind; sHdr : list N; sVals : list N; sRecs : list srec }.
Definition nil_sample : ssample := {| sKind := SNil; sHdr := []; sVals := []; sRecs := [] |}.

(* Version IPVersion SubAgentId SequenceNumber Uptime SamplesCount, agent address *)
Record spkt := { kHdr : list N; kAgent : bytes; kSamples : list ssample }.

Definition u32s (n : nat) : list nat := repeat 4%nat n.

(* DecodeIP *)
Definition dec_ip (d : bytes) : res (N * bytes * bytes) :=
  let* (v, d1) := rd 4 d in
  if v =? 1 then (if Nat.leb 4 (length d1) then let* (ip, d2) := read 4 d1 in Ok (v, ip, d2) else Err EShort)
  else if v =? 2 then (if Nat.leb 16 (length d1) then let* (ip, d2) := read 16 d1 in Ok (v, ip, d2) else Err EShort)
  else Err EOther.

(* BinaryRead of a string pointer: length word, the bytes, then the XDR padding to a 4-byte boundary *)
Definition rd_string (d : bytes) : res (bytes * bytes) :=
  let* (n, d1) := rd 4 d in
  if lenN d1 <? n then Err EShort else
  let* (s, d2) := read (N.to_nat n) d1 in
  Ok (s, snd (next (N.to_nat ((4 - n mod 4) mod 4)) d2)).

(* BinaryRead([]uint32 of length n) *)
Fixpoint rd_u32s (n : nat) (d : bytes) : res (list N * bytes) :=
  match n with
  | O => Ok ([], d)
  | S k => let* (x, d1) := rd 4 d in let* (xs, d2) := rd_u32s k d1 in Ok (x :: xs, d2)
  end.
(* the whole slice is read with one Next(4*n): a short buffer consumes nothing useful *)
Definition rd_u32_slice (n : nat) (d : bytes) : res (list N * bytes) :=
  if Nat.leb (4 * n) (length d) then rd_u32s n d else Err EShort.

Definition mkrec (fmt len : N) (k : rkind) (vals : list N) (blobs : list bytes) (lists : list (list N)) : srec :=
  {| rFmt := fmt; rLen := len; rKind := k; rVals := vals; rBlobs := blobs; rLists := lists |}.

(* DecodeFlowRecord; d is the record's own sub-buffer *)
Definition dec_flow_record (fmt len : N) (d : bytes) : res srec :=
  match fmt with
  | 1 => let* (vs, d1) := rd_fields (u32s 4) d in
         (* header<> is an XDR opaque: its header_length bytes, without the padding behind them (fix 5d701ef) *)
         let hl := nth 3 vs 0 in
         Ok (mkrec fmt len KHeader vs [if hl <? N.of_nat (length d1) then firstn (N.to_nat hl) d1 else d1] [])
  | 2 => let* (l, d1) := rd 4 d in let* (s, d2) := read 6 d1 in let* (t, d3) := read 6 d2 in
         let* (e, _) := rd 4 d3 in Ok (mkrec fmt len KEth [l; e] [s; t] [])
  | 3 => let* (vs, d1) := rd_fields (u32s 2) d in let* (s, d2) := read 4 d1 in let* (t, d3) := read 4 d2 in
         let* (ws, _) := rd_fields (u32s 4) d3 in Ok (mkrec fmt len KIPv4 (vs ++ ws) [s; t] [])
  | 4 => let* (vs, d1) := rd_fields (u32s 2) d in let* (s, d2) := read 16 d1 in let* (t, d3) := read 16 d2 in
         let* (ws, _) := rd_fields (u32s 4) d3 in Ok (mkrec fmt len KIPv6 (vs ++ ws) [s; t] [])
  | 1001 => let* (vs, _) := rd_fields (u32s 4) d in Ok (mkrec fmt len KSwitch vs [] [])
  | 1002 => let* (v, ip, d1) := dec_ip d in let* (vs, _) := rd_fields (u32s 2) d1 in
            Ok (mkrec fmt len KRouter (v :: vs) [ip] [])
  | 1003 =>
      let* (v, ip, d1) := dec_ip d in
      let* (vs, d2) := rd_fields (u32s 4) d1 in   (* AS SrcAS SrcPeerAS ASDestinations *)
      let* (pt, pl, path, d3) :=
        (if nth 3 vs 0 =? 0 then Ok (0, 0, [], d2) else
           let* (pt, d3) := rd 4 d2 in let* (pl, d4) := rd 4 d3 in
           if 1000 <? pl then Err ETooMany else
           if Z.ltb (Z.of_nat (length d4) - 4) (Z.of_N pl) then Err EOther else
           if pl =? 0 then Ok (pt, pl, [], d4) else
           let* (p, d5) := rd_u32_slice (N.to_nat pl) d4 in Ok (pt, pl, p, d5)) in
      let* (cl, d4) := rd 4 d3 in
      if 1000 <? cl then Err ETooMany else
      if Z.ltb (Z.of_nat (length d4) - 4) (Z.of_N cl) then Err EOther else
      let* (comm, d5) := (if cl =? 0 then Ok ([], d4) else rd_u32_slice (N.to_nat cl) d4) in
      let* (lp, _) := rd 4 d5 in
      Ok (mkrec fmt len KGateway (v :: vs ++ [pt; pl; cl; lp]) [ip] [path; comm])
  | 1036 => let* (q, _) := rd 4 d in Ok (mkrec fmt len KQueue [q] [] [])
  | 1037 => let* (n, d1) := rd 4 d in let* (s, d2) := rd_string d1 in let* (dir, _) := rd 4 d2 in
            Ok (mkrec fmt len KAcl [n; dir] [s] [])
  | 1038 => let* (s, _) := rd_string d in Ok (mkrec fmt len KFunc [] [s] [])
  | _ => Ok (mkrec fmt len KRaw [] [d] [])
  end.

Definition if_counters_ws : list nat := [4;4;8;4;4;8;4;4;4;4;4;4;8;4;4;4;4;4;4]%nat.

(* DecodeCounterRecord *)
Definition dec_counter_record (fmt len : N) (d : bytes) : res srec :=
  match fmt with
  | 1 => let* (vs, _) := rd_fields if_counters_ws d in Ok (mkrec fmt len KIfCounters vs [] [])
  | 2 => let* (vs, _) := rd_fields (u32s 13) d in Ok (mkrec fmt len KEthCounters vs [] [])
  | _ => Ok (mkrec fmt len KRaw [] [d] [])
  end.

(* the record loop of DecodeSample: for i < count && Len >= 8; break when a record does not fit *)
Fixpoint dec_records (count : nat) (flow : bool) (d : bytes) : res (list srec) :=
  match count with
  | O => Ok []
  | S c =>
      if Nat.leb 8 (length d) then
        let* (fmt, d1) := rd 4 d in
        let* (len, d2) := rd 4 d1 in
        if lenN d2 <? len then Ok [] else
        let (body, rest) := next (N.to_nat len) d2 in
        let* r := (if flow then dec_flow_record fmt len body else dec_counter_record fmt len body) in
        let* rs := dec_records c flow rest in
        Ok (r :: rs)
      else Ok []
  end.

(* the pre-sized Records slice: decoded records, then zero records up to the count *)
Definition pad_recs (count : nat) (rs : list srec) : list srec := rs ++ repeat nil_rec (count - length rs).

(* DecodeSample *)
Definition dec_sample (fmt len : N) (d : bytes) : res ssample :=
  let* (seq, d1) := rd 4 d in
  let* (st, sv, d2) :=
    (if (fmt =? 1) || (fmt =? 2) then
       let* (sid, d2) := rd 4 d1 in Ok (sid / 16777216, sid mod 16777216, d2)
     else if (fmt =? 3) || (fmt =? 4) || (fmt =? 5) then
       let* (a, d2) := rd 4 d1 in let* (b, d3) := rd 4 d2 in Ok (a, b, d3)
     else Err EOther) in
  let hdr := [fmt; len; seq; st; sv] in
  let body (kind : skind) (nvals : nat) (flow : bool) :=
    let* (vs, d3) := rd_fields (u32s nvals) d2 in
    let count := last vs 0 in
    if 1000 <? count then Err ETooMany else
    let* rs := dec_records (N.to_nat count) flow d3 in
    Ok {| sKind := kind; sHdr := hdr; sVals := vs; sRecs := pad_recs (N.to_nat count) rs |} in
  if fmt =? 1 then body SFlowS 6%nat true
  else if (fmt =? 2) || (fmt =? 4) then body SCounterS 1%nat false
  else if fmt =? 3 then body SExpFlowS 8%nat true
  else body SDropS 5%nat true.

(* the sample loop of DecodeMessage *)
Fixpoint dec_samples (count : nat) (d : bytes) : res (list ssample) :=
  match count with
  | O => Ok []
  | S c =>
      if Nat.leb 8 (length d) then
        let* (fmt, d1) := rd 4 d in
        let* (len, d2) := rd 4 d1 in
        if lenN d2 <? len then Ok [] else
        let (body, rest) := next (N.to_nat len) d2 in
        let* s := dec_sample fmt len body in
        let* ss := dec_samples c rest in
        Ok (s :: ss)
      else Ok []
  end.

(* DecodeMessageVersion *)
Definition decode_sf (d : bytes) : res spkt :=
  let* (ver, d0) := rd 4 d in
  if negb (ver =? 5) then Err EVersion else
  let* (ipv, d1) := rd 4 d0 in
  let* (ip, d2) := (if ipv =? 1 then read 4 d1 else if ipv =? 2 then read 16 d1 else Err EOther) in
  let* (vs, d3) := rd_fields (u32s 4) d2 in
  let count := nth 3 vs 0 in
  if 1000 <? count then Err ETooMany else
  let* ss := dec_samples (N.to_nat count) d3 in
  Ok {| kHdr := ver :: ipv :: vs; kAgent := ip;
        kSamples := ss ++ repeat nil_sample (N.to_nat count - length ss) |}.

(* ---- observation ---- *)
Local Open Scope string_scope.
Definition show_kind (k : rkind) : tok :=
  TS (match k with
      | KNil => "nil" | KRaw => "raw" | KHeader => "hdr" | KEth => "eth" | KIPv4 => "ip4" | KIPv6 => "ip6"
      | KSwitch => "sw" | KRouter => "rt" | KGateway => "gw" | KQueue => "q" | KAcl => "acl" | KFunc => "fn"
      | KIfCounters => "ifc" | KEthCounters => "ethc" end).
Definition show_rec (r : srec) : list tok :=
  TS "r" :: show_kind (rKind r) :: TN (rFmt r) :: TN (rLen r) :: map TN (rVals r) ++ map TB (rBlobs r)
     ++ flat_map (fun l => TS "[" :: map TN l ++ [TS "]"]) (rLists r).
Definition show_sample (s : ssample) : list tok :=
  TS "s" :: TS (match sKind s with SNil => "nil" | SFlowS => "flow" | SCounterS => "ctr"
                              | SExpFlowS => "xflow" | SDropS => "drop" end)
     :: map TN (sHdr s) ++ map TN (sVals s) ++ flat_map show_rec (sRecs s).
Definition show_sf (r : res spkt) : list tok :=
  match r with
  | Ok p => TS "ok" :: map TN (kHdr p) ++ TB (kAgent p) :: flat_map show_sample (kSamples p)
  | Err e => [err_tok e]
  | Panic => [TS "panic"]
  | OutOfFuel => [TS "fuel"]
  end.
