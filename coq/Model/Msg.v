(* The flow message (pb/flow.proto) as a finite map from protobuf field number to value,
   plus the custom fields appended to the protobuf "unknown" section (reflect.go MapCustom). *)
From Coq Require Import String NArith List Bool.
From GF Require Import Base.Res Base.Bytes.
Import ListNotations.
Open Scope N_scope.

Inductive pval := VI (n : N) | VB (b : bytes) | VLI (l : list N) | VLB (l : list bytes).

(* custom field: (field number, is_varint, varint value, bytes value) in append order *)
Record ufield := { uNum : N; uVarint : bool; uInt : N; uBytes : bytes }.

Record msg := { cols : list (N * pval); unk : list ufield }.

Definition empty_msg : msg := {| cols := []; unk := [] |}.

Fixpoint alookup (l : list (N * pval)) (k : N) : option pval :=
  match l with [] => None | (k', v) :: r => if k' =? k then Some v else alookup r k end.

Definition mset (m : msg) (k : N) (v : pval) : msg := {| cols := (k, v) :: cols m; unk := unk m |}.
Definition mgetI (m : msg) (k : N) : N := match alookup (cols m) k with Some (VI n) => n | _ => 0 end.
Definition mgetB (m : msg) (k : N) : bytes := match alookup (cols m) k with Some (VB b) => b | _ => [] end.
Definition mgetLI (m : msg) (k : N) : list N := match alookup (cols m) k with Some (VLI l) => l | _ => [] end.
Definition mgetLB (m : msg) (k : N) : list bytes := match alookup (cols m) k with Some (VLB l) => l | _ => [] end.
Definition msetI m k n := mset m k (VI n).
Definition msetB m k b := mset m k (VB b).
Definition madd_unk (m : msg) (u : ufield) : msg := {| cols := cols m; unk := unk m ++ [u] |}.

(* column numbers of pb/flow.proto *)
Definition cType := 1. Definition cSamplingRate := 3. Definition cSeq := 4.
Definition cSrcAddr := 6. Definition cDstAddr := 7. Definition cBytes := 9. Definition cPackets := 10.
Definition cSamplerAddr := 11. Definition cNextHop := 12. Definition cNextHopAs := 13.
Definition cSrcAs := 14. Definition cDstAs := 15. Definition cSrcNet := 16. Definition cDstNet := 17.
Definition cInIf := 18. Definition cOutIf := 19. Definition cProto := 20. Definition cSrcPort := 21.
Definition cDstPort := 22. Definition cIpTos := 23. Definition cFwdStatus := 24. Definition cIpTtl := 25.
Definition cTcpFlags := 26. Definition cSrcMac := 27. Definition cDstMac := 28. Definition cVlanId := 29.
Definition cEtype := 30. Definition cIcmpType := 31. Definition cIcmpCode := 32. Definition cSrcVlan := 33.
Definition cDstVlan := 34. Definition cFragId := 35. Definition cFragOff := 36. Definition cFlowLabel := 37.
Definition cIpFlags := 38. Definition cObsDomain := 70. Definition cObsPoint := 71.
Definition cMplsTtl := 80. Definition cMplsLabel := 81. Definition cMplsIp := 82.
Definition cBgpNextHop := 100. Definition cBgpComm := 101. Definition cAsPath := 102.
Definition cLayerStack := 103. Definition cLayerSize := 104. Definition cRhAddrs := 105. Definition cRhSegLeft := 106.
Definition cTimeRecv := 110. Definition cTimeStart := 111. Definition cTimeEnd := 112.

Definition all_cols : list N :=
  [1;3;4;6;7;9;10;11;12;13;14;15;16;17;18;19;20;21;22;23;24;25;26;27;28;29;30;31;32;33;34;35;36;37;38;
   70;71;80;81;82;100;101;102;103;104;105;106;110;111;112].

(* width in bits of a scalar column (uint64 columns, the rest are uint32 / enum) *)
Definition col_bits (k : N) : N :=
  if (k =? 3) || (k =? 9) || (k =? 10) || (k =? 27) || (k =? 28) || (k =? 110) || (k =? 111) || (k =? 112)
  then 64 else 32.

(* canonical observation: what the protobuf wire form contains (proto3: defaults are absent),
   in field-number order; repeated fields one entry per element; then the custom fields *)
Definition show_col (m : msg) (k : N) : list tok :=
  match alookup (cols m) k with
  | Some (VI n) => if n =? 0 then [] else [TN k; TN n]
  | Some (VB b) => match b with [] => [] | _ => [TN k; TB b] end
  | Some (VLI l) => flat_map (fun x => [TN k; TN x]) l
  | Some (VLB l) => flat_map (fun x => [TN k; TB x]) l
  | None => []
  end.
Definition show_unk (u : ufield) : list tok :=
  if uVarint u then [TN (uNum u); TN (uInt u)] else [TN (uNum u); TB (uBytes u)].
Definition show_msg (m : msg) : list tok :=
  TS "m"%string :: flat_map (show_col m) all_cols ++ flat_map show_unk (unk m).
