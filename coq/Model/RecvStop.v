(* utils/udp.go Stop(): close(q); one nil sentinel per worker through the dispatch channel; wg.Wait.
   Workers keep decoding what they dequeue and exit on a sentinel.  Readers that still hold a packet
   when q closes either get it into the channel or leave with it.  Every action is atomic. *)
From Coq Require Import List NArith Bool Arith.
From GF Require Import Model.First.
Import ListNotations.

Inductive item := IPkt (id : nat) | INil.
Inductive wst := WIdle | WBusy (id : nat) | WExited.

Record sstate := {
  pending : nat;          (* sentinels Stop still has to push *)
  squeue : list item;     (* dispatch channel, oldest first *)
  sworkers : list wst;
  sdecoded : list nat;
  late : list nat         (* packets readers still hold when q closes *)
}.

Inductive saction := SPush | SDeq (w : nat) | SFin (w : nat) | SLateEnq | SLateLeave.

Definition sroom (cap : nat) (s : sstate) : bool := Nat.ltb (length (squeue s)) (Nat.max cap 1).

Definition sstep (cap : nat) (s : sstate) (a : saction) : sstate :=
  match a with
  | SPush =>
      if negb (Nat.eqb (pending s) 0) && sroom cap s then
        {| pending := pending s - 1; squeue := squeue s ++ [INil]; sworkers := sworkers s; sdecoded := sdecoded s; late := late s |}
      else s
  | SDeq w =>
      match nth_error (sworkers s) w, squeue s with
      | Some WIdle, IPkt id :: q =>
          {| pending := pending s; squeue := q; sworkers := upd w (WBusy id) (sworkers s); sdecoded := sdecoded s; late := late s |}
      | Some WIdle, INil :: q =>
          {| pending := pending s; squeue := q; sworkers := upd w WExited (sworkers s); sdecoded := sdecoded s; late := late s |}
      | _, _ => s
      end
  | SFin w =>
      match nth_error (sworkers s) w with
      | Some (WBusy id) =>
          {| pending := pending s; squeue := squeue s; sworkers := upd w WIdle (sworkers s); sdecoded := id :: sdecoded s; late := late s |}
      | _ => s
      end
  | SLateEnq =>
      match late s with
      | id :: r => if sroom cap s then
                     {| pending := pending s; squeue := squeue s ++ [IPkt id]; sworkers := sworkers s; sdecoded := sdecoded s; late := r |}
                   else s
      | [] => s
      end
  | SLateLeave =>
      match late s with
      | _ :: r => {| pending := pending s; squeue := squeue s; sworkers := sworkers s; sdecoded := sdecoded s; late := r |}
      | [] => s
      end
  end.

Definition srun (cap : nat) (s : sstate) (sched : list saction) : sstate := fold_left (sstep cap) sched s.

(* the moment Stop is called: q0 queued, some workers busy, readers may hold packets *)
Definition sinit (q0 : list nat) (ws : list wst) (held : list nat) : sstate :=
  {| pending := length ws; squeue := map IPkt q0; sworkers := ws; sdecoded := []; late := held |}.

Definition busy_count (s : sstate) : nat := length (filter (fun w => match w with WBusy _ => true | _ => false end) (sworkers s)).
Definition all_exited (s : sstate) : bool := forallb (fun w => match w with WExited => true | _ => false end) (sworkers s).
(* the measure that shows Stop terminates: every enabled action of Stop and the workers lowers it *)
Definition smeasure (s : sstate) : nat := 3 * pending s + 2 * length (squeue s) + busy_count s.

(* session flags of Start / Stop *)
Definition start_call (started : bool) : bool * bool := if started then (false, started) else (true, true).   (* (ok, started') *)
Definition stop_call (started : bool) : bool * bool := if started then (true, false) else (false, started).
