(* producer/proto/messages.go FormatMessageReflectCustom + mapUnknown, config_impl.go mapFormat, render.go:
   the textual forms (JSON, text) of a flow message under ANY formatter configuration of a mapping file --
   field list and order, renames, renderers, custom protobuf fields (scalar / array) carried in the unknown
   section.  The struct layout, the registered and default renderers and the slice table are regenerated
   from the source (Spec/RenderTables.v).

   Result None = outside the model (stated where it arises): timestamps outside years 1970..9999, one custom
   field name declared both as array and as scalar and carried both ways (mapUnknown's type assertion would
   panic), an unknown renderer function. *)
From Coq Require Import String Ascii NArith List Bool.
From GF Require Import Base.Res Base.Bytes Model.Msg Model.Json Model.Cfg Model.Render Spec.RenderTables.
Import ListNotations.
Open Scope N_scope.

(* ---- the formatter section of a mapping file, as written ---- *)
Record afmt := { fFields : list string; fRename : list (string * string); fRender : list (string * string);
                 fKeys : list string }.
Definition empty_afmt : afmt := {| fFields := []; fRename := []; fRender := []; fKeys := [] |}.

Fixpoint sassoc {A} (l : list (string * A)) (k : string) : option A :=
  match l with [] => None | (k', v) :: r => if String.eqb k' k then Some v else sassoc r k end.

(* ---- Go values handed to a renderer, and what it returns ---- *)
Inductive gval := GU32 (n : N) | GU64 (n : N) | GEnum (names : list (N * string)) (n : N) | GBytes (b : bytes).
Inductive rout := ONil | OStr (s : bytes) | ONum (n : N).
Inductive fval := FOne (v : gval) | FMany (l : list gval).

(* ---- time.Unix(sec, nsec).UTC().Format(time.RFC3339Nano), years 1970..9999 ---- *)
Definition pad2 (n : N) : bytes := [48 + n / 10 mod 10; 48 + n mod 10].
Definition pad4 (n : N) : bytes := [48 + n / 1000 mod 10; 48 + n / 100 mod 10; 48 + n / 10 mod 10; 48 + n mod 10].
(* days since 1970-01-01 -> (year, month, day), proleptic Gregorian calendar *)
Definition civil (days : N) : N * N * N :=
  let z := days + 719468 in
  let era := z / 146097 in
  let doe := z mod 146097 in
  let yoe := (doe - doe / 1460 + doe / 36524 - doe / 146096) / 365 in
  let doy := doe - (365 * yoe + yoe / 4 - yoe / 100) in
  let mp := (5 * doy + 2) / 153 in
  let d := doy - (153 * mp + 2) / 5 + 1 in
  let m := if mp <? 10 then mp + 3 else mp - 9 in
  let y := yoe + era * 400 + (if m <=? 2 then 1 else 0) in
  (y, m, d).
(* the fraction: nine digits with the trailing zeros removed, nothing when zero *)
Fixpoint strip_zeros (fuel : nat) (n : N) (digits : nat) : N * nat :=
  match fuel with
  | O => (n, digits)
  | S f => if (n mod 10 =? 0) && negb (Nat.eqb digits 0) then strip_zeros f (n / 10) (pred digits) else (n, digits)
  end.
Fixpoint pad_dec (digits : nat) (n : N) : bytes :=
  match digits with O => [] | S d => pad_dec d (n / 10) ++ [48 + n mod 10] end.
Definition frac (ns : N) : bytes :=
  if ns =? 0 then [] else let '(n, d) := strip_zeros 9 ns 9 in 46 :: pad_dec d n.
Definition year10000 : N := 253402300800.
Definition rfc3339 (sec ns : N) : option bytes :=
  if year10000 <=? sec then None else
  let '(y, mo, d) := civil (sec / 86400) in
  let s := sec mod 86400 in
  Some (pad4 y ++ [45] ++ pad2 mo ++ [45] ++ pad2 d ++ [84] ++ pad2 (s / 3600) ++ [58] ++ pad2 (s / 60 mod 60) ++ [58]
          ++ pad2 (s mod 60) ++ frac ns ++ [90]).

(* ---- render.go ---- *)
Local Open Scope string_scope.
Definition unknown_s : bytes := bytes_of_string "unknown".

Definition nil_renderer (v : option gval) : rout :=
  match v with
  | None => ONil
  | Some (GEnum t n) => OStr (enum_name t n)
  | Some (GBytes b) => OStr (hex_of_bytes b)
  | Some (GU32 n) | Some (GU64 n) => ONum n
  end.

Definition icmp_name (m : msg) : bytes :=
  let p := mgetI m cProto in let t := mgetI m cIcmpType in
  if (p =? 1)%N then match lookup_name icmp_names t with Some s => bytes_of_string s | None => [] end
  else if (p =? 58)%N then match lookup_name icmp6_names t with Some s => bytes_of_string s | None => [] end
  else unknown_s.

(* a renderer function of render.go, by its Go name; None = not a function this model knows *)
Definition apply_renderer (fn : string) (m : msg) (field : string) (v : option gval) : option rout :=
  if String.eqb fn "NilRenderer" then Some (nil_renderer v)
  else if String.eqb fn "StringRenderer" then
    Some (match v with Some (GBytes b) => OStr b | _ => nil_renderer v end)
  else if String.eqb fn "IPRenderer" then
    Some (match v with Some (GBytes b) => OStr (render_ip b) | _ => nil_renderer v end)
  else if String.eqb fn "MacRenderer" then
    Some (match v with Some (GU64 n) => OStr (mac_string n) | _ => nil_renderer v end)
  else if String.eqb fn "EtypeRenderer" then
    Some (match v with Some (GU32 n) => OStr (etype_name n) | Some (GU64 n) => OStr (etype_name (n mod 4294967296))
          | _ => OStr unknown_s end)
  else if String.eqb fn "ProtoRenderer" then
    Some (match v with Some (GU32 n) => OStr (proto_name n) | Some (GU64 n) => OStr (proto_name (n mod 4294967296))
          | _ => OStr unknown_s end)
  else if String.eqb fn "NetworkRenderer" then
    let addr := if String.eqb field "SrcNet" then mgetB m cSrcAddr
                else if String.eqb field "DstNet" then mgetB m cDstAddr else [] in
    Some (match v with Some (GU32 n) => OStr (render_prefix addr n) | _ => OStr unknown_s end)
  else if String.eqb fn "ICMPRenderer" then Some (OStr (icmp_name m))
  else if String.eqb fn "DateTimeRenderer" then
    match v with
    | Some (GU32 n) | Some (GU64 n) => match rfc3339 n 0 with Some s => Some (OStr s) | None => None end
    | _ => Some (nil_renderer v)
    end
  else if String.eqb fn "DateTimeNanoRenderer" then
    match v with
    | Some (GU64 n) =>
        if (9223372036854775808 <=? n)%N then None   (* int64(n) is negative *)
        else match rfc3339 (n / 1000000000) (n mod 1000000000) with Some s => Some (OStr s) | None => None end
    | _ => Some (nil_renderer v)
    end
  else None.

(* ---- config_impl.go mapFormat ---- *)
Definition is_custom (cs : list custom) (s : string) : bool := existsb (fun c => String.eqb (cName c) s) cs.
Definition struct_by_json (s : string) := find (fun r => let '(j, _, _, _) := r in String.eqb j s) name_table.
Definition struct_by_go (s : string) := find (fun r => let '(_, g, _, _) := r in String.eqb g s) name_table.
(* Remap: documented name -> Go name; a custom field of the same name hides the struct field *)
Definition remap (cs : list custom) (s : string) : string :=
  if is_custom cs s then s else match struct_by_json s with Some (_, g, _, _) => g | None => s end.
Definition in_remap (cs : list custom) (s : string) : bool :=
  is_custom cs s || match struct_by_json s with Some _ => true | None => false end.

(* the render map: configured entries (key translated by reMap, renderer id by the renderers map) over the defaults *)
Definition configured_renderers (f : afmt) (cs : list custom) : option (list (string * string)) :=
  fold_right (fun kv acc =>
                match acc, sassoc registered_renderers (snd kv) with
                | Some l, Some fn => Some ((remap cs (fst kv), fn) :: l)
                | _, _ => None
                end) (Some []) (fRender f).
Definition render_fn (conf : list (string * string)) (field : string) : option string :=
  match sassoc conf field with Some fn => Some fn | None => sassoc default_renderers field end.

Definition all_fields : list string := map (fun r => let '(j, _, _, _) := r in j) name_table.

Record fmtc := { cFields : list string; cRename : list (string * string); cRend : list (string * string);
                 cCustoms : list custom; cKeys : list string }.
(* None = Compile fails *)
Definition compile_fmt (f : afmt) (cs : list custom) : option fmtc :=
  match configured_renderers f cs with
  | None => None
  | Some conf =>
      let ok := forallb (fun s => in_remap cs s || match render_fn conf s with Some _ => true | None => false end) (fFields f)
                && forallb (in_remap cs) (fKeys f) in
      if ok then Some {| cFields := match fFields f with [] => all_fields | l => l end;
                         cRename := fRename f; cRend := conf; cCustoms := cs; cKeys := fKeys f |}
      else None
  end.

Definition is_slice (cs : list custom) (field : string) : bool :=
  match find (fun c => String.eqb (cName c) field) (rev cs) with
  | Some c => cArray c
  | None => existsb (String.eqb field) slice_fields
  end.

(* ---- values ---- *)
Definition struct_value (m : msg) (go : string) (col : N) (k : ckind) : fval :=
  match k with
  | CKScalar => FOne (if (col_bits col =? 64)%N then GU64 (mgetI m col) else GU32 (mgetI m col))
  | CKBytes => FOne (GBytes (mgetB m col))
  | CKListI => FMany (map GU32 (mgetLI m col))
  | CKListB => FMany (map GBytes (mgetLB m col))
  | CKEnum => if String.eqb go "LayerStack" then FMany (map (GEnum layer_names) (mgetLI m col))
              else FOne (GEnum flowtype_names (mgetI m col))
  end.

(* mapUnknown, for one name: the unknown fields whose number is declared (the last declaration of a number
   counts) under that name, scalars overwritten, arrays appended; None inside = shapes mixed (Go panics) *)
Definition custom_by_num (cs : list custom) (n : N) : option custom := find (fun c => (cIndex c =? n)%N) (rev cs).
Fixpoint unk_value (cs : list custom) (us : list ufield) (name : string) (acc : option fval) : option (option fval) :=
  match us with
  | [] => Some acc
  | u :: r =>
      match custom_by_num cs (uNum u) with
      | Some c =>
          if String.eqb (cName c) name then
            let v := if uVarint u then GU64 (uInt u) else GBytes (uBytes u) in
            if cArray c then
              match acc with
              | None => unk_value cs r name (Some (FMany [v]))
              | Some (FMany l) => unk_value cs r name (Some (FMany (l ++ [v])))
              | Some (FOne _) => None
              end
            else unk_value cs r name (Some (FOne v))
          else unk_value cs r name acc
      | None => unk_value cs r name acc
      end
  end.

(* ---- one configured field: None = outside the model, Some None = not written, Some (Some (name, value)) ---- *)
Definition jval_of (o : rout) : option jval :=
  match o with ONil => None | OStr s => Some (JStr s) | ONum n => Some (JNum (show_dec n)) end.

Fixpoint render_elems (fn : string) (m : msg) (field : string) (l : list gval) : option (list jval) :=
  match l with
  | [] => Some []
  | v :: r =>
      match apply_renderer fn m field (Some v), render_elems fn m field r with
      | Some o, Some js => match jval_of o with Some j => Some (j :: js) | None => None end
      | _, _ => None
      end
  end.

Definition format_field (c : fmtc) (m : msg) (s : string) : option (option (bytes * jval)) :=
  let final := match sassoc (cRename c) s with Some "" => s | Some r => r | None => s end in
  let field := remap (cCustoms c) s in
  let rf := render_fn (cRend c) field in
  let fn := match rf with Some f => f | None => "NilRenderer" end in
  let value : option (option fval) :=
    match struct_by_go field with
    | Some (_, g, col, k) => Some (Some (struct_value m g col k))
    | None => unk_value (cCustoms c) (unk m) s None
    end in
  match value with
  | None => None
  | Some v =>
      (* a field that is neither in the struct nor carried is written only when it is virtual: it has a renderer
         and is not a declared custom field *)
      let skip := match v with
                  | Some _ => false
                  | None => match rf with None => true | Some _ => is_custom (cCustoms c) s end
                  end in
      if skip then Some None else
      (* a value that is there decides how it is walked (a list element by element, anything else as one value); the
         array flag of the configuration only matters for a field without a value *)
      match v with
      | Some (FMany l) =>
          match render_elems fn m field l with
          | Some js => Some (Some (bytes_of_string final, JArr js))
          | None => None
          end
      | Some (FOne x) =>
          match apply_renderer fn m field (Some x) with
          | Some o => Some (match jval_of o with Some j => Some (bytes_of_string final, j) | None => None end)
          | None => None
          end
      | None =>
          if is_slice (cCustoms c) field then Some (Some (bytes_of_string final, JArr []))
          else
            match apply_renderer fn m field None with
            | Some o => Some (match jval_of o with Some j => Some (bytes_of_string final, j) | None => None end)
            | None => None
            end
      end
  end.
Local Close Scope string_scope.

Fixpoint format_members (c : fmtc) (m : msg) (fields : list string) : option (list (bytes * jval)) :=
  match fields with
  | [] => Some []
  | s :: r =>
      match format_field c m s, format_members c m r with
      | Some x, Some l => Some (match x with Some kv => kv :: l | None => l end)
      | _, _ => None
      end
  end.

(* JSON: strings through encoding/json (arbitrary bytes), numbers and arrays as they are *)
Fixpoint show_jval_u (v : jval) : bytes :=
  match v with
  | JNum d => d
  | JStr s => esc_string_utf8 s
  | JArr l => 91 :: intersperse [44] (map show_jval_u l) ++ [93]
  end.
(* the field name is written like a string value (json.Marshal of the name): any name keeps the document well formed *)
Definition show_member_u (kv : bytes * jval) : bytes := esc_string_utf8 (fst kv) ++ [58] ++ show_jval_u (snd kv).
Definition format_json (c : fmtc) (m : msg) : option bytes :=
  match format_members c m (cFields c) with
  | Some ms => Some (123 :: intersperse [44] (map show_member_u ms) ++ [125])
  | None => None
  end.
Definition format_text (c : fmtc) (m : msg) : option bytes :=
  match format_members c m (cFields c) with
  | Some ms => Some (intersperse [32] (map (fun kv => fst kv ++ [61] ++ show_text_val (snd kv)) ms))
  | None => None
  end.

(* ---- the partition key (messages.go Key / baseKey): FNV-1 (32 bit) over fmt.Sprintf("%v") of the key fields
   in configured order; a key field the message has neither as a struct field nor in its unknown section is
   passed over; no key fields, no key ---- *)
Definition show_v_gval (v : gval) : bytes :=
  match v with
  | GU32 n | GU64 n => show_dec n
  | GEnum t n => enum_name t n
  | GBytes b => 91 :: intersperse [32] (map show_dec b) ++ [93]
  end.
Definition show_v (v : fval) : bytes :=
  match v with
  | FOne x => show_v_gval x
  | FMany l => 91 :: intersperse [32] (map show_v_gval l) ++ [93]
  end.
(* the text of one key field; Some [] when it is passed over; None = shapes mixed (outside the model) *)
Definition key_text (c : fmtc) (m : msg) (s : string) : option bytes :=
  let field := remap (cCustoms c) s in
  match struct_by_go field with
  | Some (_, g, col, k) => Some (show_v (struct_value m g col k))
  | None => match unk_value (cCustoms c) (unk m) s None with
            | Some (Some v) => Some (show_v v)
            | Some None => Some []
            | None => None
            end
  end.
Definition fnv1_32 (data : bytes) : N :=
  fold_left (fun h b => N.lxor (h * 16777619 mod 4294967296) b) data 2166136261.
Fixpoint key_texts (c : fmtc) (m : msg) (keys : list string) : option bytes :=
  match keys with
  | [] => Some []
  | s :: r => match key_text c m s, key_texts c m r with
              | Some a, Some b => Some (a ++ b)
              | _, _ => None
              end
  end.
Definition msg_key (c : fmtc) (m : msg) : option bytes :=
  match cKeys c with
  | [] => Some []
  | ks => match key_texts c m ks with Some t => Some (enc_be 4 (fnv1_32 t)) | None => None end
  end.
