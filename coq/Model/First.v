(* First contact with an exporter (utils/pipe.go NetFlowPipe.DecodeFlow, producer/proto/proto.go
   getSamplingRateSystem): k workers race on "look up the exporter's system / create one / publish it /
   add to it", each step atomic.  Two protocols: the pinned one (publish without re-check) and the
   repaired one (re-check under the write lock). *)
From Coq Require Import List NArith Bool Arith.
Import ListNotations.

(* shared state: the map entry of the exporter (index of the published system) and every system
   ever created with the template / rate ids added to it *)
Record shared := { pub : option nat; systems : list (list nat) }.
Inductive wpc := Lookup | Create | Add | Done.
(* worker: program counter, the system it holds, the id it announces *)
Record worker := { pcw : wpc; loc : nat; tid : nat }.

Fixpoint upd {A} (i : nat) (x : A) (l : list A) : list A :=
  match l, i with
  | [], _ => []
  | _ :: r, O => x :: r
  | y :: r, S k => y :: upd k x r
  end.

Definition sys_get (s : shared) (i : nat) : list nat := nth i (systems s) [].

Definition wstep (repaired : bool) (s : shared) (w : worker) : shared * worker :=
  match pcw w with
  | Lookup =>                                           (* RLock; m[key]; RUnlock *)
      match pub s with
      | Some i => (s, {| pcw := Add; loc := i; tid := tid w |})
      | None => (s, {| pcw := Create; loc := 0; tid := tid w |})
      end
  | Create =>                                           (* Lock; [re-check;] create; publish; Unlock *)
      match (if repaired then pub s else None) with
      | Some i => (s, {| pcw := Add; loc := i; tid := tid w |})
      | None =>
          let i := length (systems s) in
          ({| pub := Some i; systems := systems s ++ [[]] |}, {| pcw := Add; loc := i; tid := tid w |})
      end
  | Add =>                                              (* system.AddTemplate / AddSamplingRate *)
      ({| pub := pub s; systems := upd (loc w) (tid w :: sys_get s (loc w)) (systems s) |},
       {| pcw := Done; loc := loc w; tid := tid w |})
  | Done => (s, w)
  end.

Definition state := (shared * list worker)%type.
Definition step (repaired : bool) (st : state) (i : nat) : state :=
  match nth_error (snd st) i with
  | Some w => let (s', w') := wstep repaired (fst st) w in (s', upd i w' (snd st))
  | None => st
  end.
Definition run (repaired : bool) (sched : list nat) (st : state) : state := fold_left (step repaired) sched st.
Definition init (ts : list nat) : state :=
  ({| pub := None; systems := [] |}, map (fun t => {| pcw := Lookup; loc := 0; tid := t |}) ts).

(* what every datagram processed afterwards sees *)
Definition visible (st : state) : list nat :=
  match pub (fst st) with Some i => sys_get (fst st) i | None => [] end.
Definition all_done (st : state) : bool := forallb (fun w => match pcw w with Done => true | _ => false end) (snd st).
Definition lost (st : state) : list nat :=
  filter (fun t => negb (existsb (Nat.eqb t) (visible st))) (map tid (snd st)).

(* a third protocol (seed C16-5): the per-exporter SLOT is published under the write lock, the template system is
   created outside it through a once-guard, and the read-locked fast path returns the slot's system without going
   through the guard.  A slot whose system does not exist yet is pub = Some i with i = length systems; a worker that
   finds such a slot works with a nil system: its announcement is dropped silently. *)
Definition wstep_slot (s : shared) (w : worker) : shared * worker :=
  match pcw w with
  | Lookup =>
      match pub s with
      | Some i => if Nat.ltb i (length (systems s)) then (s, {| pcw := Add; loc := i; tid := tid w |})
                  else (s, {| pcw := Done; loc := i; tid := tid w |})             (* nil system: nothing added *)
      | None => (s, {| pcw := Create; loc := 0; tid := tid w |})
      end
  | Create =>
      match loc w with
      | O =>                                             (* Lock; look again; reserve the slot; Unlock *)
          match pub s with
          | Some i => (s, {| pcw := Create; loc := S i; tid := tid w |})
          | None => ({| pub := Some (length (systems s)); systems := systems s |},
                     {| pcw := Create; loc := S (length (systems s)); tid := tid w |})
          end
      | S i =>                                           (* once.Do(create the system) *)
          if Nat.ltb i (length (systems s)) then (s, {| pcw := Add; loc := i; tid := tid w |})
          else ({| pub := pub s; systems := systems s ++ [[]] |}, {| pcw := Add; loc := i; tid := tid w |})
      end
  | Add =>
      ({| pub := pub s; systems := upd (loc w) (tid w :: sys_get s (loc w)) (systems s) |},
       {| pcw := Done; loc := loc w; tid := tid w |})
  | Done => (s, w)
  end.
Definition step_slot (st : state) (i : nat) : state :=
  match nth_error (snd st) i with
  | Some w => let (s', w') := wstep_slot (fst st) w in (s', upd i w' (snd st))
  | None => st
  end.
Definition run_slot (sched : list nat) (st : state) : state := fold_left step_slot sched st.

(* a fourth protocol (seed C16-7): both lookups are repaired, but the worker that CREATED the exporter's entry carries a
   "new source" flag to the producer, which treats it like a failed lookup and installs a fresh system over the
   published one -- a decision made under one lock, acted on later under another.  (Create, S i) = the creator on its
   way to the producer. *)
Definition wstep_flag (s : shared) (w : worker) : shared * worker :=
  match pcw w with
  | Lookup =>
      match pub s with
      | Some i => (s, {| pcw := Add; loc := i; tid := tid w |})
      | None => (s, {| pcw := Create; loc := 0; tid := tid w |})
      end
  | Create =>
      match loc w with
      | O =>                                             (* Lock; look again; create; publish; Unlock *)
          match pub s with
          | Some i => (s, {| pcw := Add; loc := i; tid := tid w |})
          | None => ({| pub := Some (length (systems s)); systems := systems s ++ [[]] |},
                     {| pcw := Create; loc := S (length (systems s)); tid := tid w |})
          end
      | S _ =>                                           (* the producer, flag set: a fresh system replaces the published one *)
          ({| pub := Some (length (systems s)); systems := systems s ++ [[tid w]] |},
           {| pcw := Done; loc := length (systems s); tid := tid w |})
      end
  | Add =>
      ({| pub := pub s; systems := upd (loc w) (tid w :: sys_get s (loc w)) (systems s) |},
       {| pcw := Done; loc := loc w; tid := tid w |})
  | Done => (s, w)
  end.
Definition step_flag (st : state) (i : nat) : state :=
  match nth_error (snd st) i with
  | Some w => let (s', w') := wstep_flag (fst st) w in (s', upd i w' (snd st))
  | None => st
  end.
Definition run_flag (sched : list nat) (st : state) : state := fold_left step_flag sched st.
