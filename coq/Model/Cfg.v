(* producer/proto/config_impl.go: the mapping file as loaded (abstract), name resolution of
   destinations (finalizemapDest + reflect.FieldByName in MapCustom) and compilation to the
   configuration the producers consult (repaired tree). *)
From Coq Require Import String NArith ZArith List Bool.
From GF Require Import Base.Res Base.Bytes Model.Msg Model.Packet Model.ProdNF.
Import ListNotations.
Local Open Scope string_scope.
Open Scope N_scope.

Inductive ckind := CKScalar | CKBytes | CKListI | CKListB | CKEnum.

(* documented (JSON) name, Go field name, protobuf number, Go kind of the struct field *)
Definition name_table : list (string * string * N * ckind) :=
  [("type", "Type", 1, CKEnum); ("time_received_ns", "TimeReceivedNs", 110, CKScalar);
   ("sequence_num", "SequenceNum", 4, CKScalar); ("sampling_rate", "SamplingRate", 3, CKScalar);
   ("sampler_address", "SamplerAddress", 11, CKBytes); ("time_flow_start_ns", "TimeFlowStartNs", 111, CKScalar);
   ("time_flow_end_ns", "TimeFlowEndNs", 112, CKScalar); ("bytes", "Bytes", 9, CKScalar);
   ("packets", "Packets", 10, CKScalar); ("src_addr", "SrcAddr", 6, CKBytes); ("dst_addr", "DstAddr", 7, CKBytes);
   ("etype", "Etype", 30, CKScalar); ("proto", "Proto", 20, CKScalar); ("src_port", "SrcPort", 21, CKScalar);
   ("dst_port", "DstPort", 22, CKScalar); ("in_if", "InIf", 18, CKScalar); ("out_if", "OutIf", 19, CKScalar);
   ("src_mac", "SrcMac", 27, CKScalar); ("dst_mac", "DstMac", 28, CKScalar); ("src_vlan", "SrcVlan", 33, CKScalar);
   ("dst_vlan", "DstVlan", 34, CKScalar); ("vlan_id", "VlanId", 29, CKScalar); ("ip_tos", "IpTos", 23, CKScalar);
   ("forwarding_status", "ForwardingStatus", 24, CKScalar); ("ip_ttl", "IpTtl", 25, CKScalar);
   ("ip_flags", "IpFlags", 38, CKScalar); ("tcp_flags", "TcpFlags", 26, CKScalar);
   ("icmp_type", "IcmpType", 31, CKScalar); ("icmp_code", "IcmpCode", 32, CKScalar);
   ("ipv6_flow_label", "Ipv6FlowLabel", 37, CKScalar); ("fragment_id", "FragmentId", 35, CKScalar);
   ("fragment_offset", "FragmentOffset", 36, CKScalar); ("src_as", "SrcAs", 14, CKScalar);
   ("dst_as", "DstAs", 15, CKScalar); ("next_hop", "NextHop", 12, CKBytes); ("next_hop_as", "NextHopAs", 13, CKScalar);
   ("src_net", "SrcNet", 16, CKScalar); ("dst_net", "DstNet", 17, CKScalar); ("bgp_next_hop", "BgpNextHop", 100, CKBytes);
   ("bgp_communities", "BgpCommunities", 101, CKListI); ("as_path", "AsPath", 102, CKListI);
   ("mpls_ttl", "MplsTtl", 80, CKListI); ("mpls_label", "MplsLabel", 81, CKListI); ("mpls_ip", "MplsIp", 82, CKListB);
   ("observation_domain_id", "ObservationDomainId", 70, CKScalar); ("observation_point_id", "ObservationPointId", 71, CKScalar);
   ("layer_stack", "LayerStack", 103, CKEnum); ("layer_size", "LayerSize", 104, CKListI);
   ("ipv6_routing_header_addresses", "Ipv6RoutingHeaderAddresses", 105, CKListB);
   ("ipv6_routing_header_seg_left", "Ipv6RoutingHeaderSegLeft", 106, CKScalar)].

Definition dest_of_kind (col : N) (k : ckind) : dest :=
  match k with
  | CKScalar => DScalar col | CKBytes => DBytes col | CKListI => DListI col | CKListB => DListB col
  | CKEnum => DEnumErr
  end.

(* custom protobuf fields of formatter.protobuf: name, index, type ("varint" / "string"|"bytes" / other), array *)
Inductive ptype := PTVarint | PTString | PTOther.
Record custom := { cName : string; cIndex : N; cType : ptype; cArray : bool }.

(* a destination name as written in the file *)
Definition resolve (customs : list custom) (name : string) : dest :=
  (* a column of the message, by documented name (translated) or by Go name *)
  match find (fun r => let '(j, g, _, _) := r in String.eqb j name || String.eqb g name) name_table with
  | Some (_, _, col, k) =>
      (* a custom field of the same name shadows the documented name in the translation table
         (reMap[name] = ""), the Go name still wins in FieldByName *)
      if existsb (fun c => String.eqb (cName c) name) customs &&
         negb (existsb (fun r => let '(_, g, _, _) := r in String.eqb g name) name_table)
      then match find (fun c => String.eqb (cName c) name) (rev customs) with
           | Some c => match cType c with
                       | PTVarint => DCustom (cIndex c) true (cArray c)
                       | PTString => DCustom (cIndex c) false (cArray c)
                       | PTOther => DBadType end
           | None => DNone end
      else dest_of_kind col k
  | None =>
      match find (fun c => String.eqb (cName c) name) (rev customs) with
      | Some c =>
          if cIndex c =? 0 then DNone else
          match cType c with
          | PTVarint => DCustom (cIndex c) true (cArray c)
          | PTString => DCustom (cIndex c) false (cArray c)
          | PTOther => DBadType
          end
      | None => DNone
      end
  end.

Record anf := { aNfVer : N; aNfPenP : bool; aNfPen : N; aNfType : N; aNfDest : string; aNfLittle : bool }.
Record alayer := { aLKey : string; aLEncap : bool; aLOff : Z; aLLen : Z; aLDest : string; aLLittle : bool }.
Record acfg := { aCustoms : list custom; aNf : list anf; aLayers : list alayer; aPorts : list portreg }.
Definition empty_acfg : acfg := {| aCustoms := []; aNf := []; aLayers := []; aPorts := [] |}.

(* mapConfig; a custom field of an unsupported type makes the loader fail (finalizemapDest) only
   if some mapping uses it; negative layer offsets/lengths are rejected *)
Definition compile (a : acfg) : option prodcfg :=
  let mk name little := {| mDest := resolve (aCustoms a) name; mLittle := little |} in
  let nf v := map (fun x => {| nPenP := aNfPenP x; nPen := aNfPen x; nType := aNfType x;
                               nMap := mk (aNfDest x) (aNfLittle x) |})
                  (filter (fun x => aNfVer x =? v) (aNf a)) in
  if existsb (fun l => (aLOff l <? 0)%Z || (aLLen l <? 0)%Z) (aLayers a) then None else
  let layers := map (fun l => {| lKey := aLKey l; lEncap := aLEncap l; lOff := aLOff l; lLen := aLLen l;
                                 lMap := mk (aLDest l) (aLLittle l) |}) (aLayers a) in
  let bad := existsb (fun c => match mDest (nMap c) with DBadType => true | _ => false end) (nf 9 ++ nf 10)
             || existsb (fun l => match mDest (lMap l) with DBadType => true | _ => false end) layers in
  if bad then None else
  Some {| pNF9 := nf 9; pIPFIX := nf 10; pPacket := {| cLayers := layers; cPorts := aPorts a |}; pNilCfg := false |}.
