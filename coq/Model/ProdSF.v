(* producer/proto/producer_sf.go and the sFlow branch of proto.go Produce. *)
From Coq Require Import String NArith List Bool.
From GF Require Import Base.Res Base.Bytes Model.Msg Model.SFlow Model.Packet.
Import ListNotations.
Open Scope N_scope.

Definition vv (l : list N) (i : nat) : N := nth i l 0.
Definition bb (l : list bytes) (i : nat) : bytes := nth i l [].

(* one record of SearchSFlowSampleConfig's loop *)
Definition sf_record (cfg : pcfg) (m : msg) (r : srec) : res msg :=
  let vs := rVals r in let bs := rBlobs r in
  match rKind r with
  | KHeader =>
      let m1 := msetI m cBytes (vv vs 1) in
      if vv vs 0 =? 1 then parse_packet cfg m1 (bb bs 0) else Ok m1
  | KIPv4 =>
      Ok (msetI (msetI (msetI (msetI (msetI (msetI (msetB (msetB m cSrcAddr (bb bs 0)) cDstAddr (bb bs 1))
            cBytes (vv vs 0)) cProto (vv vs 1)) cSrcPort (vv vs 2)) cDstPort (vv vs 3)) cIpTos (vv vs 5)) cEtype 2048)
  | KIPv6 =>
      Ok (msetI (msetI (msetI (msetI (msetI (msetI (msetB (msetB m cSrcAddr (bb bs 0)) cDstAddr (bb bs 1))
            cBytes (vv vs 0)) cProto (vv vs 1)) cSrcPort (vv vs 2)) cDstPort (vv vs 3)) cIpTos (vv vs 5)) cEtype 34525)
  | KRouter => Ok (msetI (msetI (msetB m cNextHop (bb bs 0)) cSrcNet (vv vs 1)) cDstNet (vv vs 2))
  | KGateway =>
      let path := nth 0 (rLists r) [] in
      let comm := nth 1 (rLists r) [] in
      let m1 := mset (mset (msetB m cBgpNextHop (bb bs 0)) cBgpComm (VLI comm)) cAsPath (VLI path) in
      let m2 := match path with
                | [] => msetI m1 cDstAs (vv vs 1)
                | first :: _ => msetI (msetI m1 cDstAs (last path 0)) cNextHopAs first
                end in
      Ok (msetI m2 cSrcAs (if 0 <? vv vs 2 then vv vs 2 else vv vs 1))
  | KSwitch => Ok (msetI (msetI m cSrcVlan (vv vs 0)) cDstVlan (vv vs 2))
  | _ => Ok m
  end.

Fixpoint sf_records (cfg : pcfg) (m : msg) (rs : list srec) : res msg :=
  match rs with
  | [] => Ok m
  | r :: rs' => let* m1 := sf_record cfg m r in sf_records cfg m1 rs'
  end.

(* SearchSFlowSampleConfig for a flow / expanded flow sample *)
Definition convert_sf (cfg : pcfg) (s : ssample) : res msg :=
  let vs := sVals s in
  let m0 := msetI empty_msg cType 1 in
  let m1 := match sKind s with
            | SFlowS => msetI (msetI (msetI m0 cSamplingRate (vv vs 0)) cInIf (vv vs 3)) cOutIf (vv vs 4)
            | _ => msetI (msetI (msetI m0 cSamplingRate (vv vs 0)) cInIf (vv vs 4)) cOutIf (vv vs 6)
            end in
  sf_records cfg (msetI m1 cPackets 1) (sRecs s).

Definition flow_samples (p : spkt) : list ssample :=
  filter (fun s => match sKind s with SFlowS | SExpFlowS => true | _ => false end) (kSamples p).

Fixpoint convert_samples (cfg : pcfg) (ss : list ssample) : res (list msg) :=
  match ss with
  | [] => Ok []
  | s :: r => let* m := convert_sf cfg s in let* ms := convert_samples cfg r in Ok (m :: ms)
  end.

(* ProcessMessageSFlowConfig + Produce's enrichment (receive time as start and end) *)
Definition produce_sf (cfg : pcfg) (tr : N) (p : spkt) : res (list msg) :=
  let* ms := convert_samples cfg (flow_samples p) in
  Ok (map (fun m => msetI (msetI (msetI (msetI (msetB m cSamplerAddr (kAgent p)) cSeq (nth 3 (kHdr p) 0))
                     cTimeRecv tr) cTimeStart tr) cTimeEnd tr) ms).
