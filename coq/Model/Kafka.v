(* transport/kafka/kafka.go: the driver over sarama's AsyncProducer.  sarama itself is not modelled:
   the producer's behaviour enters as parameters with a stated contract (Properties/C20.v). *)
From Coq Require Import List NArith Bool Arith.
From GF Require Import Base.Bytes.
Import ListNotations.

Record kmsg := { kTopic : nat; kKey : bytes; kValue : bytes }.

(* Send: one ProducerMessage per call, topic from the configuration, key and value as given *)
Definition ksend (topic : nat) (inputs : list kmsg) (key value : bytes) : list kmsg :=
  inputs ++ [{| kTopic := topic; kKey := key; kValue := value |}].
Definition ksends (topic : nat) (kvs : list (bytes * bytes)) : list kmsg :=
  fold_left (fun acc kv => ksend topic acc (fst kv) (snd kv)) kvs [].

(* the error forwarder: producer errors arrive one by one; each is handed to the transport's error
   channel if a reader is waiting at that moment, otherwise it is discarded (select ... default) *)
Fixpoint forwarded (errs : list (nat * bool)) : list nat :=   (* (error, listener ready?) *)
  match errs with
  | [] => []
  | (e, ready) :: r => if ready then e :: forwarded r else forwarded r
  end.
