(* JSON text produced by the message formatter (messages.go FormatMessageReflectCustom in JSON
   mode): string escaping as encoding/json does it for ASCII input, and the assembly of an
   object from already rendered values. *)
From Coq Require Import String NArith List Bool.
From GF Require Import Base.Res Base.Bytes.
Import ListNotations.
Open Scope N_scope.

Definition hexd (n : N) : N := if n <? 10 then 48 + n else 87 + n. (* 0-9 a-f *)

(* one byte < 128 of a string value *)
Definition esc_byte (b : N) : bytes :=
  if (b =? 34) || (b =? 92) then [92; b]                   (* double quote and backslash *)
  else if b =? 8 then [92; 98] else if b =? 12 then [92; 102]
  else if b =? 10 then [92; 110] else if b =? 13 then [92; 114] else if b =? 9 then [92; 116]
  else if (b <? 32) || (b =? 60) || (b =? 62) || (b =? 38) then [92; 117; 48; 48; hexd (b / 16); hexd (b mod 16)]
  else [b].
Definition esc_string (s : bytes) : bytes := 34 :: flat_map esc_byte s ++ [34].

(* a rendered value: number / literal text that needs no quotes, string, list of values *)
Inductive jval := JNum (digits : bytes) | JStr (s : bytes) | JArr (l : list jval).

Fixpoint intersperse (sep : bytes) (l : list bytes) : bytes :=
  match l with [] => [] | [x] => x | x :: r => x ++ sep ++ intersperse sep r end.

Fixpoint show_jval (v : jval) : bytes :=
  match v with
  | JNum d => d
  | JStr s => esc_string s
  | JArr l => 91 :: intersperse [44] (map show_jval l) ++ [93]
  end.

(* an object of key:value members; keys are configured names, written between quotes as they are *)
Definition show_member (kv : bytes * jval) : bytes := 34 :: fst kv ++ [34; 58] ++ show_jval (snd kv).
Definition format_object (ms : list (bytes * jval)) : bytes := 123 :: intersperse [44] (map show_member ms) ++ [125].
