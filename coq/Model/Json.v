(* JSON text produced by the message formatter (messages.go FormatMessageReflectCustom in JSON
   mode): string escaping as encoding/json does it for ASCII input, and the assembly of an
   object from already rendered values. *)
From Coq Require Import String NArith List Bool.
From GF Require Import Base.Res Base.Bytes.
Import ListNotations.
Open Scope N_scope.

Definition hexd (n : N) : N := if n <? 10 then 48 + n else 87 + n. (* 0-9 a-f *)

(* one byte < 128 of a string value *)
Definition esc_byte (b : N) : bytes :=
  if (b =? 34) || (b =? 92) then [92; b]                   (* double quote and backslash *)
  else if b =? 8 then [92; 98] else if b =? 12 then [92; 102]
  else if b =? 10 then [92; 110] else if b =? 13 then [92; 114] else if b =? 9 then [92; 116]
  else if (b <? 32) || (b =? 60) || (b =? 62) || (b =? 38) then [92; 117; 48; 48; hexd (b / 16); hexd (b mod 16)]
  else [b].
Definition esc_string (s : bytes) : bytes := 34 :: flat_map esc_byte s ++ [34].

(* a rendered value: number / literal text that needs no quotes, string, list of values *)
Inductive jval := JNum (digits : bytes) | JStr (s : bytes) | JArr (l : list jval).

Fixpoint intersperse (sep : bytes) (l : list bytes) : bytes :=
  match l with [] => [] | [x] => x | x :: r => x ++ sep ++ intersperse sep r end.

Fixpoint show_jval (v : jval) : bytes :=
  match v with
  | JNum d => d
  | JStr s => esc_string s
  | JArr l => 91 :: intersperse [44] (map show_jval l) ++ [93]
  end.

(* an object of key:value members; keys are configured names, written between quotes as they are *)
Definition show_member (kv : bytes * jval) : bytes := 34 :: fst kv ++ [34; 58] ++ show_jval (snd kv).
Definition format_object (ms : list (bytes * jval)) : bytes := 123 :: intersperse [44] (map show_member ms) ++ [125].

(* ---- strings of ARBITRARY bytes (encoding/json on a Go string that need not be valid UTF-8) ----
   bytes < 0x80 as above; a well-formed multi-byte UTF-8 sequence is copied, except U+2028 / U+2029 which are
   written   /  ; any byte that does not start a well-formed sequence becomes � *)
Definition cont (x : N) : bool := (128 <=? x) && (x <=? 191).
(* length of the well-formed multi-byte sequence at the head of s, 0 if there is none (utf8.DecodeRune's table) *)
Definition utf8_len (s : bytes) : nat :=
  match s with
  | b0 :: r =>
      if (194 <=? b0) && (b0 <=? 223) then
        match r with b1 :: _ => if cont b1 then 2%nat else 0%nat | _ => 0%nat end
      else if (224 <=? b0) && (b0 <=? 239) then
        match r with
        | b1 :: b2 :: _ =>
            let lo := if b0 =? 224 then 160 else 128 in
            let hi := if b0 =? 237 then 159 else 191 in
            if (lo <=? b1) && (b1 <=? hi) && cont b2 then 3%nat else 0%nat
        | _ => 0%nat
        end
      else if (240 <=? b0) && (b0 <=? 244) then
        match r with
        | b1 :: b2 :: b3 :: _ =>
            let lo := if b0 =? 240 then 144 else 128 in
            let hi := if b0 =? 244 then 143 else 191 in
            if (lo <=? b1) && (b1 <=? hi) && cont b2 && cont b3 then 4%nat else 0%nat
        | _ => 0%nat
        end
      else 0%nat
  | [] => 0%nat
  end.

Fixpoint esc_utf8 (fuel : nat) (s : bytes) : bytes :=
  match fuel with
  | O => []
  | S f =>
      match s with
      | [] => []
      | b :: r =>
          if b <? 128 then esc_byte b ++ esc_utf8 f r
          else match utf8_len s with
               | O => [92; 117; 102; 102; 102; 100] ++ esc_utf8 f r
               | n => if (b =? 226) && (nth 1 s 0 =? 128) && ((nth 2 s 0 =? 168) || (nth 2 s 0 =? 169))
                      then [92; 117; 50; 48; 50; if nth 2 s 0 =? 168 then 56 else 57] ++ esc_utf8 f (skipn 3 s)
                      else firstn n s ++ esc_utf8 f (skipn n s)
               end
      end
  end.
Definition esc_string_utf8 (s : bytes) : bytes := 34 :: esc_utf8 (length s) s ++ [34].
