(* utils/udp.go: the UDP receiver as a transition system.  Readers take a buffer from the pool
   and read a datagram into it, hand it to the dispatch queue (or, non-blocking with a full queue,
   report it dropped and return the buffer), workers dequeue, decode, and return the buffer.
   Every step is one atomic action of one goroutine; a schedule is a list of actions. *)
From Coq Require Import List NArith Bool Arith.
From GF Require Import Model.First.
Import ListNotations.

(* a packet: its datagram id and the buffer it sits in *)
Record pkt := { pid : nat; pbuf : nat }.

Record rstate := {
  hands : list (option pkt);     (* per reader: packet read, not yet dispatched *)
  queue : list pkt;              (* dispatch channel, oldest first *)
  works : list (option pkt);     (* per worker: packet being decoded *)
  decoded : list nat;
  dropped : list nat;
  free : list nat;               (* buffers in the pool *)
  nextid : nat;                  (* datagram ids are handed out by the environment in arrival order *)
  nextbuf : nat                  (* the pool allocates a new buffer when it is empty *)
}.

Record rcfg := { qcap : nat; blocking : bool }.

Inductive action :=
| ARead (r : nat)        (* reader r: pool.Get + ReadFromUDP *)
| ADispatch (r : nat)    (* reader r: dispatch <- pkt, or drop when non-blocking and full *)
| ADequeue (w : nat)     (* worker w: pkt := <-dispatch ; decode starts *)
| AFinish (w : nat).     (* worker w: decode returned ; pool.Put *)

Inductive event := ERead (buf : nat) | EStart (id buf : nat) | EEnd (id : nat) | EDrop (id buf : nat).

Definition set_nth {A} := @upd A.

(* rendezvous (capacity 0): the hand-off needs an idle worker; modelled as capacity = number of idle workers *)
Definition idle_workers (s : rstate) : nat := length (filter (fun w => match w with None => true | _ => false end) (works s)).
Definition has_room (c : rcfg) (s : rstate) : bool :=
  if Nat.eqb (qcap c) 0 then Nat.ltb (length (queue s)) (idle_workers s) else Nat.ltb (length (queue s)) (qcap c).

Definition rstep (c : rcfg) (s : rstate) (a : action) : rstate * list event :=
  match a with
  | ARead r =>
      match nth_error (hands s) r with
      | Some None =>
          let '(b, fr, nb) := match free s with
                              | b :: fr => (b, fr, nextbuf s)
                              | [] => (nextbuf s, [], S (nextbuf s))
                              end in
          ({| hands := set_nth r (Some {| pid := nextid s; pbuf := b |}) (hands s); queue := queue s; works := works s;
              decoded := decoded s; dropped := dropped s; free := fr; nextid := S (nextid s); nextbuf := nb |},
           [ERead b])
      | _ => (s, [])
      end
  | ADispatch r =>
      match nth_error (hands s) r with
      | Some (Some p) =>
          if has_room c s then
            ({| hands := set_nth r None (hands s); queue := queue s ++ [p]; works := works s; decoded := decoded s;
                dropped := dropped s; free := free s; nextid := nextid s; nextbuf := nextbuf s |}, [])
          else if blocking c then (s, [])          (* the reader waits *)
          else
            ({| hands := set_nth r None (hands s); queue := queue s; works := works s; decoded := decoded s;
                dropped := pid p :: dropped s; free := pbuf p :: free s; nextid := nextid s; nextbuf := nextbuf s |},
             [EDrop (pid p) (pbuf p)])
      | _ => (s, [])
      end
  | ADequeue w =>
      match nth_error (works s) w, queue s with
      | Some None, p :: q =>
          ({| hands := hands s; queue := q; works := set_nth w (Some p) (works s); decoded := decoded s;
              dropped := dropped s; free := free s; nextid := nextid s; nextbuf := nextbuf s |},
           [EStart (pid p) (pbuf p)])
      | _, _ => (s, [])
      end
  | AFinish w =>
      match nth_error (works s) w with
      | Some (Some p) =>
          ({| hands := hands s; queue := queue s; works := set_nth w None (works s); decoded := pid p :: decoded s;
              dropped := dropped s; free := pbuf p :: free s; nextid := nextid s; nextbuf := nextbuf s |},
           [EEnd (pid p)])
      | _ => (s, [])
      end
  end.

Fixpoint rrun (c : rcfg) (s : rstate) (sched : list action) : rstate * list event :=
  match sched with
  | [] => (s, [])
  | a :: r => let (s1, e1) := rstep c s a in let (s2, e2) := rrun c s1 r in (s2, e1 ++ e2)
  end.

Definition rinit (readers workers : nat) : rstate :=
  {| hands := repeat None readers; queue := []; works := repeat None workers; decoded := []; dropped := [];
     free := []; nextid := 0; nextbuf := 0 |}.

Definition somes {A} (l : list (option A)) : list A := flat_map (fun o => match o with Some x => [x] | None => [] end) l.
(* packets currently owned by some party *)
Definition live (s : rstate) : list pkt := somes (hands s) ++ queue s ++ somes (works s).
Definition quiescent (s : rstate) : bool := match live s with [] => true | _ => false end.
