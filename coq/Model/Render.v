(* producer/proto/render.go and messages.go FormatMessageReflectCustom under the DEFAULT formatter configuration
   (no mapping file): every column of the flow message in struct order, rendered by its default renderer --
   addresses (net/netip text form, RFC 5952), MACs, ethertype / protocol / enum names (tables regenerated from the
   source: Spec/RenderTables.v), prefixes, decimal numbers, arrays -- as JSON and as text. *)
From Coq Require Import String Ascii NArith List Bool.
From GF Require Import Base.Res Base.Bytes Model.Msg Model.Json Model.Cfg Spec.RenderTables.
Import ListNotations.
Open Scope N_scope.

Definition bytes_of_string (s : string) : bytes := map N_of_ascii (list_ascii_of_string s).

(* ---- numbers ---- *)
Fixpoint dec_fuel (fuel : nat) (n : N) : bytes :=
  match fuel with
  | O => []
  | S f => if n <? 10 then [48 + n] else dec_fuel f (n / 10) ++ [48 + n mod 10]
  end.
Definition show_dec (n : N) : bytes := dec_fuel (S (N.to_nat (N.log2 n))) n.

Definition hex2 (b : N) : bytes := [hexd (b / 16 mod 16); hexd (b mod 16)].
Definition hex_of_bytes (l : bytes) : bytes := flat_map hex2 l.

(* ---- MAC: the low 48 bits as xx:xx:xx:xx:xx:xx ---- *)
Definition mac_string (n : N) : bytes := intersperse [58] (map hex2 (enc_be 6 (n mod 281474976710656))).

(* ---- IP addresses (netip.Addr.String) ---- *)
Definition ip4_string (b : bytes) : bytes := intersperse [46] (map show_dec b).

Definition hex_group (g : N) : bytes :=
  if g <? 16 then [hexd g]
  else if g <? 256 then [hexd (g / 16); hexd (g mod 16)]
  else if g <? 4096 then [hexd (g / 256); hexd (g / 16 mod 16); hexd (g mod 16)]
  else [hexd (g / 4096 mod 16); hexd (g / 256 mod 16); hexd (g / 16 mod 16); hexd (g mod 16)].

Fixpoint groups (b : bytes) : list N :=
  match b with x :: y :: r => (x * 256 + y) :: groups r | _ => [] end.

Fixpoint zrun_len (l : list N) : nat := match l with 0 :: r => S (zrun_len r) | _ => O end.
Definition run_len (o : option (nat * nat)) : nat := match o with Some (s, e) => (e - s)%nat | None => O end.
(* the longest run of at least two zero groups, the first among equals *)
Fixpoint best_run (i : nat) (l : list N) (best : option (nat * nat)) : option (nat * nat) :=
  match l with
  | [] => best
  | _ :: r =>
      let n := zrun_len l in
      best_run (S i) r (if Nat.leb 2 n && Nat.ltb (run_len best) n then Some (i, (i + n)%nat) else best)
  end.

Definition ip6_string (gs : list N) : bytes :=
  match best_run 0 gs None with
  | None => intersperse [58] (map hex_group gs)
  | Some (s, e) => intersperse [58] (map hex_group (firstn s gs)) ++ [58; 58] ++ intersperse [58] (map hex_group (skipn e gs))
  end.

Definition is4in6 (b : bytes) : bool :=
  forallb (fun x => x =? 0) (firstn 10 b) && (nth 10 b 0 =? 255) && (nth 11 b 0 =? 255).

Definition ip16_string (b : bytes) : bytes :=
  if is4in6 b then bytes_of_string "::ffff:" ++ ip4_string (skipn 12 b) else ip6_string (groups b).

(* RenderIP: anything that is not 4 or 16 bytes long renders as the empty string *)
Definition render_ip (b : bytes) : bytes :=
  if Nat.eqb (length b) 4 then ip4_string b else if Nat.eqb (length b) 16 then ip16_string b else [].

(* ---- prefixes (NetworkRenderer: netip.Addr.Prefix(bits).String()) ---- *)
Fixpoint mask_bytes (b : bytes) (bits : N) : bytes :=
  match b with
  | [] => []
  | x :: r => if 8 <=? bits then x :: mask_bytes r (bits - 8)
              else (x / 2 ^ (8 - bits)) * 2 ^ (8 - bits) :: map (fun _ => 0) r
  end.
Definition invalid_prefix : bytes := bytes_of_string "invalid Prefix".
Definition render_prefix (addr : bytes) (bits : N) : bytes :=
  if Nat.eqb (length addr) 4 then
    (if 32 <? bits then invalid_prefix else ip4_string (mask_bytes addr bits) ++ [47] ++ show_dec bits)
  else if Nat.eqb (length addr) 16 then
    (if 128 <? bits then invalid_prefix else ip16_string (mask_bytes addr bits) ++ [47] ++ show_dec bits)
  else invalid_prefix.

(* ---- names ---- *)
Fixpoint lookup_name (t : list (N * string)) (k : N) : option string :=
  match t with [] => None | (k', s) :: r => if k' =? k then Some s else lookup_name r k end.
Definition enum_name (t : list (N * string)) (k : N) : bytes :=
  match lookup_name t k with Some s => bytes_of_string s | None => show_dec k end.
Definition etype_name (k : N) : bytes :=
  match lookup_name etype_names k with Some s => bytes_of_string s | None => [] end.
Definition proto_name (k : N) : bytes :=
  match lookup_name proto_names k with
  | Some s => bytes_of_string s
  | None => if (146 <=? k) && (k <=? 252) then bytes_of_string "unassigned"
            else if (253 <=? k) && (k <=? 254) then bytes_of_string "experimental"
            else if k =? 255 then bytes_of_string "reserved" else bytes_of_string "unknown"
  end.

(* ---- one column under the default configuration ---- *)
Local Open Scope string_scope.
Definition render_col (m : msg) (go : string) (col : N) (k : ckind) : jval :=
  if String.eqb go "Type" then JStr (enum_name flowtype_names (mgetI m col))
  else if String.eqb go "SrcMac" || String.eqb go "DstMac" then JStr (mac_string (mgetI m col))
  else if String.eqb go "Etype" then JStr (etype_name (mgetI m col))
  else if String.eqb go "Proto" then JStr (proto_name (mgetI m col))
  else if String.eqb go "SrcNet" then JStr (render_prefix (mgetB m cSrcAddr) (mgetI m col))
  else if String.eqb go "DstNet" then JStr (render_prefix (mgetB m cDstAddr) (mgetI m col))
  else if String.eqb go "LayerStack" then JArr (map (fun x => JStr (enum_name layer_names x)) (mgetLI m col))
  else match k with
       | CKScalar | CKEnum => JNum (show_dec (mgetI m col))
       | CKBytes => JStr (render_ip (mgetB m col))
       | CKListI => JArr (map (fun x => JNum (show_dec x)) (mgetLI m col))
       | CKListB => JArr (map (fun x => JStr (render_ip x)) (mgetLB m col))
       end.
Local Close Scope string_scope.

Definition default_members (m : msg) : list (bytes * jval) :=
  map (fun r => let '(json, go, col, k) := r in (bytes_of_string json, render_col m go col k)) name_table.

(* MarshalJSON *)
Definition json_default (m : msg) : bytes := format_object (default_members m).

(* MarshalText: name=value separated by blanks, strings as they are, arrays in brackets *)
Fixpoint show_text_val (v : jval) : bytes :=
  match v with
  | JNum d => d
  | JStr s => s
  | JArr l => 91 :: intersperse [44] (map show_text_val l) ++ [93]
  end.
Definition text_default (m : msg) : bytes :=
  intersperse [32] (map (fun kv => fst kv ++ [61] ++ show_text_val (snd kv)) (default_members m)).
