(* producer/proto/producer_packet.go (ParsePacket and the layer parsers), reflect.go
   (GetBytes, MapCustom) and the compiled mapping configuration they consult (repaired tree). *)
From Coq Require Import String NArith ZArith List Bool.
From GF Require Import Base.Res Base.Bytes Model.Msg.
Import ListNotations.
Open Scope N_scope.

(* ---- compiled mapping configuration (config_impl.go) -------------------------------- *)
(* resolved destination of a mapping (MapCustom): an existing column of the message, by the
   Go kind of the struct field; a custom protobuf field; or nothing *)
Inductive dest :=
| DScalar (col : N)            (* uint32 / uint64 column *)
| DBytes (col : N)             (* []byte column *)
| DListI (col : N)             (* []uint32 column *)
| DListB (col : N)             (* [][]byte column: appends an empty element *)
| DEnumErr                     (* enum-typed column (Type, LayerStack): WriteDecoded rejects it *)
| DCustom (index : N) (varint : bool) (array : bool)
| DBadType                     (* custom field with an unsupported type: error *)
| DPanic                       (* unexported struct field: reflect panics *)
| DNone.                       (* unknown name, no protobuf index: ignored *)

Record mapcfg := { mDest : dest; mLittle : bool }.
Record layermap := { lKey : string; lEncap : bool; lOff : Z; lLen : Z; lMap : mapcfg }.
Record nfmap := { nPenP : bool; nPen : N; nType : N; nMap : mapcfg }.
(* registered port parsers: protocol ("tcp"/"udp"), is_dst, port, parser index *)
Inductive pparser := PPTeredo | PPGre | PPGeneve.
Record portreg := { rTcp : bool; rDst : bool; rPort : N; rParser : pparser }.
Record pcfg := { cLayers : list layermap; cPorts : list portreg }.
Definition empty_pcfg : pcfg := {| cLayers := []; cPorts := [] |}.

(* ---- numbers (producer_nf.go DecodeUNumber / DecodeUNumberLE + WriteUDecoded) -------- *)
Definition dec_unum (bits : N) (v : bytes) : res N :=
  if Nat.leb (length v) 8 then Ok (be v mod 2 ^ bits) else Err EOther.
Definition dec_unum_le (bits : N) (v : bytes) : res N :=
  if Nat.leb (length v) 8 then Ok (be (rev v) mod 2 ^ bits) else Err EOther.

(* ---- GetBytes (reflect.go) ------------------------------------------------------------ *)
(* d[start:end] panics unless 0 <= start <= end <= len(d) *)
Definition get_bytes (d : bytes) (offset length_ : Z) (shift : bool) : res bytes :=
  let len := Z.of_nat (length d) in
  if (len * 8 <? offset)%Z then Ok [] else
  if (length_ =? 0)%Z then Ok [] else
  let shiftSize := Z.rem offset 8 in
  let shiftRight := Z.rem length_ 8 in
  let start := Z.quot offset 8 in
  let end0 := (Z.quot (offset + length_) 8 + (if (0 <? Z.rem (offset + length_) 8)%Z then 1 else 0))%Z in
  let lengthB := (Z.quot length_ 8 + (if (0 <? shiftRight)%Z then 1 else 0))%Z in
  let missing := (end0 - len)%Z in
  let end1 := if (0 <? missing)%Z then len else end0 in
  if ((start <? 0) || (end1 <? start) || (len <? end1))%Z%bool then Panic else
  let dUsed := firstn (Z.to_nat (end1 - start)) (skipn (Z.to_nat start) d) in
  if ((shiftSize =? 0) && (Z.rem length_ 8 =? 0))%Z%bool then
    if (0 <? missing)%Z then
      if (lengthB <? 0)%Z then Panic else
      Ok (firstn (Z.to_nat lengthB) (dUsed ++ repeat 0 (Z.to_nat lengthB)))
    else Ok dUsed
  else
    if (lengthB <? 0)%Z then Panic else
    if ((shiftSize <? 0) || (shiftRight <? 0))%Z%bool then Panic else
    let n := Z.to_nat lengthB in
    let ss := Z.to_N shiftSize in
    let fin := map (fun i =>
                      let a := nth i dUsed 0 in
                      let b := nth (S i) dUsed 0 in
                      if Nat.ltb i (length dUsed) then
                        ((a * 2 ^ ss) mod 256 + (if Nat.ltb (S i) (length dUsed) then b / 2 ^ (8 - ss) else 0)) mod 256
                      else 0) (seq 0 n) in
    match rev fin with
    | [] => Panic (* dFinal[len-1] on an empty slice *)
    | last :: r =>
        let sr := Z.to_N (Z.rem (8 - shiftRight) 8) in
        let last' := if shift then last / 2 ^ sr else (last / 2 ^ sr) * 2 ^ sr in
        Ok (rev (last' mod 256 :: r))
    end.

(* ---- MapCustom (reflect.go) ------------------------------------------------------------- *)
Definition map_custom (m : msg) (v : bytes) (c : mapcfg) : res msg :=
  let num bits := if mLittle c then dec_unum_le bits v else dec_unum bits v in
  match mDest c with
  | DScalar col => let* x := num (col_bits col) in Ok (msetI m col x)
  | DBytes col => Ok (msetB m col v)
  | DListI col => let* x := num 32 in Ok (mset m col (VLI (mgetLI m col ++ [x])))
  | DListB col => Ok (mset m col (VLB (mgetLB m col ++ [[]])))
  | DEnumErr => Err EOther
  | DCustom idx true _ =>
      let* x := num 64 in Ok (madd_unk m {| uNum := idx; uVarint := true; uInt := x; uBytes := [] |})
  | DCustom idx false _ => Ok (madd_unk m {| uNum := idx; uVarint := false; uInt := 0; uBytes := v |})
  | DBadType => Err EOther
  | DPanic => Panic
  | DNone => Ok m
  end.

(* ---- parsers ------------------------------------------------------------------------------ *)
Inductive parser :=
| PNone | PEthernet | PDot1Q | PMPLS | PIPv4 | PIPv6 | PV6Route | PV6Frag | PTCP | PUDP | PICMP | PICMPv6
| PGRE | PTeredo | PGeneve.

Definition layer_index (p : parser) : N :=
  match p with
  | PNone => 0 (* the zero ParserInfo returned by a parser that stops the chain; parserNone is 100 *)
  | PEthernet => 20 | PDot1Q | PMPLS => 25 | PIPv4 | PIPv6 => 30 | PV6Route | PV6Frag => 35
  | PTCP | PUDP | PGRE | PTeredo | PGeneve => 40 | PICMP | PICMPv6 => 70
  end.
Definition encap_skip (p : parser) : bool :=
  match p with PDot1Q | PMPLS | PV6Frag => true | _ => false end.
Local Open Scope string_scope.
Definition config_keys (p : parser) : list string :=
  match p with
  | PEthernet => ["ethernet"; "2"] | PDot1Q => ["dot1q"] | PMPLS => ["mpls"]
  | PIPv4 => ["ipv4"; "ip"; "3"] | PIPv6 => ["ipv6"; "ip"; "3"]
  | PV6Route => ["ipv6eh_routing"; "ipv6-route"; "ipv6eh"]
  | PV6Frag => ["ipv6eh_fragment"; "ipv6-frag"; "ipv6eh"]
  | PTCP => ["tcp"; "4"] | PUDP => ["udp"; "4"] | PICMP => ["icmp"] | PICMPv6 => ["icmpv6"; "ipv6-icmp"]
  | PGRE => ["gre"] | PTeredo => ["teredo-dst"; "teredo"] | PGeneve => ["geneve"] | PNone => []
  end.
(* value of FlowMessage_LayerStack for AddLayer *)
Definition layer_code (p : parser) : N :=
  match p with
  | PEthernet => 0 | PIPv4 => 1 | PIPv6 => 2 | PTCP => 3 | PUDP => 4 | PMPLS => 5 | PDot1Q => 6
  | PICMP => 7 | PICMPv6 => 8 | PGRE => 9 | PV6Route => 10 | PV6Frag => 11 | PGeneve => 12 | PTeredo => 13
  | PNone => 99
  end.
Local Close Scope string_scope.

(* NextParserEtype / NextParserProto (no custom etype/proto registration is reachable from a
   mapping file) *)
Definition next_etype (e : N) : parser :=
  if (e =? 6558) || (e =? 25944) then PEthernet    (* 0x199e, 0x6558 *)
  else if e =? 34887 then PMPLS                     (* 0x8847 *)
  else if e =? 33024 then PDot1Q                    (* 0x8100 *)
  else if e =? 2048 then PIPv4
  else if e =? 34525 then PIPv6                     (* 0x86dd *)
  else PNone.
Definition next_proto (p : N) : parser :=
  if p =? 1 then PICMP else if p =? 4 then PIPv4 else if p =? 6 then PTCP else if p =? 17 then PUDP
  else if p =? 41 then PIPv6 else if p =? 43 then PV6Route else if p =? 44 then PV6Frag
  else if p =? 47 then PGRE else if p =? 58 then PICMPv6 else PNone.
Definition parser_of_pp (p : pparser) : parser :=
  match p with PPTeredo => PTeredo | PPGre => PGRE | PPGeneve => PGeneve end.
(* NextParserPort: "<proto>-dst-<dstPort>" first, then "<proto>-src-<srcPort>" *)
Definition next_port (ports : list portreg) (tcp : bool) (sp dp : N) : parser :=
  match find (fun r => Bool.eqb (rTcp r) tcp && rDst r && (rPort r =? dp)) ports with
  | Some r => parser_of_pp (rParser r)
  | None =>
      match find (fun r => Bool.eqb (rTcp r) tcp && negb (rDst r) && (rPort r =? sp)) ports with
      | Some r => parser_of_pp (rParser r)
      | None => PNone
      end
  end.

Definition byte_at (d : bytes) (i : nat) : N := nth i d 0.
Definition sub (d : bytes) (a b : nat) : bytes := firstn (b - a) (skipn a d).
Definition add_layer (m : msg) (p : parser) : msg :=
  mset m cLayerStack (VLI (mgetLI m cLayerStack ++ [layer_code p])).

(* result of a layer parser: message, size, next parser.  "stop" = the zero ParseResult *)
Definition pres := (msg * N * parser)%type.
Definition stop (m : msg) : res pres := Ok (m, 0, PNone).

(* ParseMPLS's label loop; returns (labels, ttls, offset, etype option) *)
Fixpoint mpls_loop (fuel : nat) (d : bytes) (off : nat) (ls ts : list N) : list N * list N * nat * option N :=
  match fuel with
  | O => (ls, ts, off, None)
  | S fu =>
      if Nat.ltb (length d) (off + 4) then (ls, ts, off, None) else
      let label := be (sub d off (off + 3)) / 16 in
      let bottom := byte_at d (off + 2) mod 2 in
      let ttl := byte_at d (off + 3) in
      let off' := (off + 4)%nat in
      if (bottom =? 1) || (label <=? 15) then
        let et := if Nat.ltb off' (length d) then
                    (let nib := byte_at d off' / 16 in
                     if nib =? 4 then Some 2048 else if nib =? 6 then Some 34525 else None)
                  else None in
        (ls ++ [label], ts ++ [ttl], off', et)
      else mpls_loop fu d off' (ls ++ [label]) (ts ++ [ttl])
  end.

(* SRv6 segment list loop of ParseIPv6HeaderRouting *)
Fixpoint srv6_loop (fuel : nat) (d : bytes) (size : nat) (off : nat) (entry last : N) (acc : list bytes) : list bytes :=
  match fuel with
  | O => acc
  | S fu =>
      if Nat.ltb (8 + off) size && Nat.leb (8 + off + 16) (length d) && (entry <=? last) then
        srv6_loop fu d size (off + 16) (entry + 1) last (acc ++ [sub d (8 + off) (8 + off + 16)])
      else acc
  end.

Definition run_parser (ports : list portreg) (p : parser) (base : bool) (m : msg) (d : bytes) : res pres :=
  let len := length d in
  match p with
  | PNone => stop m
  | PEthernet =>
      if Nat.ltb len 14 then stop m else
      let m1 := add_layer m p in
      let et := be (sub d 12 14) in
      let m2 := if base then msetI (msetI (msetI m1 cSrcMac (be (sub d 6 12))) cDstMac (be (sub d 0 6))) cEtype et else m1 in
      Ok (m2, 14, next_etype et)
  | PDot1Q =>
      if Nat.ltb len 4 then stop m else
      let m1 := add_layer m p in
      let et := be (sub d 2 4) in
      let m2 := if base then msetI (msetI m1 cVlanId (be (sub d 0 2))) cEtype et else m1 in
      Ok (m2, 4, next_etype et)
  | PMPLS =>
      if Nat.ltb len 4 then stop m else
      let m1 := add_layer m p in
      let '(ls, ts, off, et) := mpls_loop (S len) d 0 [] [] in
      let m2 := if base then
                  mset (mset (match et with Some e => msetI m1 cEtype e | None => m1 end)
                             cMplsLabel (VLI ls)) cMplsTtl (VLI ts)
                else m1 in
      Ok (m2, N.of_nat off, match et with Some e => next_etype e | None => PNone end)
  | PIPv4 =>
      if Nat.ltb len 20 then stop m else
      let m1 := add_layer m p in
      let nh := byte_at d 9 in
      let fo := be (sub d 6 8) in
      let m2 := if base then
                  msetI (msetI (msetI (msetI (msetI (msetI (msetB (msetB m1 cSrcAddr (sub d 12 16))
                    cDstAddr (sub d 16 20)) cIpTos (byte_at d 1)) cIpTtl (byte_at d 8))
                    cFragId (be (sub d 4 6))) cFragOff (fo mod 8192)) cIpFlags (fo / 8192)) cProto nh
                else m1 in
      Ok (m2, 20, next_proto nh)
  | PIPv6 =>
      if Nat.ltb len 40 then stop m else
      let m1 := add_layer m p in
      let nh := byte_at d 6 in
      let m2 := if base then
                  msetI (msetI (msetI (msetI (msetB (msetB m1 cSrcAddr (sub d 8 24)) cDstAddr (sub d 24 40))
                    cIpTos ((be (sub d 0 2) / 16) mod 256)) cIpTtl (byte_at d 7))
                    cFlowLabel (be (sub d 0 4) mod 1048576)) cProto nh
                else m1 in
      Ok (m2, 40, next_proto nh)
  | PV6Frag =>
      if Nat.ltb len 8 then stop m else
      let m1 := add_layer m p in
      let fo := be (sub d 2 4) in
      let m2 := if base then
                  msetI (msetI (msetI m1 cFragId (be (sub d 4 8))) cFragOff (fo / 8)) cIpFlags (fo mod 8)
                else m1 in
      Ok (m2, 8, next_proto (byte_at d 0))
  | PV6Route =>
      if Nat.ltb len 8 then stop m else
      let size := (8 + 8 * N.to_nat (byte_at d 1))%nat in
      let m1 := add_layer m p in
      let m2 := if base then
                  let m' := msetI m1 cRhSegLeft (byte_at d 3) in
                  if byte_at d 2 =? 4 then
                    mset m' cRhAddrs (VLB (srv6_loop (S len) d size 0 0 (byte_at d 4) (mgetLB m' cRhAddrs)))
                  else m'
                else m1 in
      Ok (m2, N.of_nat size, next_proto (byte_at d 0))
  | PTCP =>
      if Nat.ltb len 20 then stop m else
      let hl := (byte_at d 12 / 16) * 4 in
      let m1 := add_layer m p in
      let sp := be (sub d 0 2) in let dp := be (sub d 2 4) in
      let m2 := if base then msetI (msetI (msetI m1 cSrcPort sp) cDstPort dp) cTcpFlags (byte_at d 13) else m1 in
      Ok (m2, (if hl <? 20 then 20 else hl), next_port ports true sp dp)
  | PUDP =>
      if Nat.ltb len 8 then stop m else
      let m1 := add_layer m p in
      let sp := be (sub d 0 2) in let dp := be (sub d 2 4) in
      let m2 := if base then msetI (msetI m1 cSrcPort sp) cDstPort dp else m1 in
      Ok (m2, 8, next_port ports false sp dp)
  | PGRE =>
      if Nat.ltb len 4 then stop m else
      Ok (add_layer m p, 4, next_etype (be (sub d 2 4)))
  | PTeredo => Ok (add_layer m p, 0, PIPv6)
  | PGeneve =>
      if Nat.ltb len 8 then stop m else
      Ok (add_layer m p, (byte_at d 0 mod 64) * 4 + 8, next_etype (be (sub d 2 4)))
  | PICMP | PICMPv6 =>
      if Nat.ltb len 2 then stop m else
      let m1 := add_layer m p in
      let m2 := if base then msetI (msetI m1 cIcmpType (byte_at d 0)) cIcmpCode (byte_at d 1) else m1 in
      Ok (m2, 8, PNone)
  end.

(* the mappings configured under one key, in file order *)
Fixpoint apply_key_maps (maps : list layermap) (k : string) (encap : bool) (data : bytes) (offset : N) (m : msg)
  : res msg :=
  match maps with
  | [] => Ok m
  | c :: r =>
      if String.eqb (lKey c) k && Bool.eqb (lEncap c) encap then
        let* ex := get_bytes data (Z.of_N offset * 8 + lOff c) (lLen c) true in
        let* m' := map_custom m ex (lMap c) in
        apply_key_maps r k encap data offset m'
      else apply_key_maps r k encap data offset m
  end.

(* the custom layer mappings of one layer: for each config key of the parser *)
Fixpoint apply_layer_maps (maps : list layermap) (keys : list string) (encap : bool)
         (data : bytes) (offset : N) (m : msg) : res msg :=
  match keys with
  | [] => Ok m
  | k :: ks =>
      let* m1 := apply_key_maps maps k encap data offset m in
      apply_layer_maps maps ks encap data offset m1
  end.

(* ParsePacket: for nextParser.Parser != nil && len(data) >= offset *)
Fixpoint parse_loop (fuel : nat) (cfg : pcfg) (data : bytes) (offset : N) (p : parser) (encap : bool) (m : msg)
  : res msg :=
  match fuel with
  | O => OutOfFuel
  | S fu =>
      match p with
      | PNone => Ok m
      | _ =>
          if N.of_nat (length data) <? offset then Ok m else
          let stack0 := length (mgetLI m cLayerStack) in
          let* (m1, size, nextp) := run_parser (cPorts cfg) p (negb encap) m (skipn (N.to_nat offset) data) in
          let* m2 := apply_layer_maps (cLayers cfg) (config_keys p) encap data offset m1 in
          (* a size is recorded for every layer that was added to the stack *)
          let m3 := if Nat.ltb stack0 (length (mgetLI m1 cLayerStack))
                    then mset m2 cLayerSize (VLI (mgetLI m2 cLayerSize ++ [size mod 4294967296])) else m2 in
          let encap' := encap || (negb (encap_skip nextp) && (layer_index nextp <=? layer_index p)) in
          parse_loop fu cfg data (offset + size) nextp encap' m3
      end
  end.

Definition parse_packet (cfg : pcfg) (m : msg) (data : bytes) : res msg :=
  parse_loop (length data + 3) cfg data 0 PEthernet false m.
