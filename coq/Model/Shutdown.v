(* cmd/goflow2/main.go, the shutdown sequence after SIGTERM (C18, process level):
     for _, recv := range receivers { recv.Stop() }  ...  transporter.Close()
   as a transition system.  A receiver holds the datagrams it has taken in (read from its socket) and not yet handed to
   the output; its workers hand them over one by one; Stop makes the readers leave (no further intake) and returns when
   the queue is drained (utils/udp.go, Model/RecvStop.v: c18_queued_decoded); Stop on a stopped receiver returns an
   error at once.  The main goroutine runs its program; everything else is scheduled arbitrarily. *)
From Coq Require Import List Arith Bool.
Import ListNotations.

Record rcv := { rStopped : bool; rQueued : nat }.
Inductive mainop := MStop (i : nat) | MClose.
Record sys := { rs : list rcv; prog : list mainop; inStop : bool;
                outOpen : bool; written : nat; lost : nat; taken : nat }.

Inductive event :=
| EIntake (i : nat)     (* a reader of receiver i reads a datagram from its socket *)
| EWork (i : nat)       (* a worker of receiver i hands one queued datagram to the output *)
| EMain.                (* the main goroutine makes its next move, if it can *)

Fixpoint upd {A} (l : list A) (i : nat) (x : A) : list A :=
  match l, i with
  | [], _ => []
  | _ :: r, O => x :: r
  | y :: r, S j => y :: upd r j x
  end.
Definition dflt : rcv := {| rStopped := true; rQueued := 0 |}.
Definition get (l : list rcv) (i : nat) : rcv := nth i l dflt.

Definition step (s : sys) (e : event) : sys :=
  match e with
  | EIntake i =>
      let r := get (rs s) i in
      if (i <? length (rs s)) && negb (rStopped r) then
        {| rs := upd (rs s) i {| rStopped := false; rQueued := S (rQueued r) |}; prog := prog s; inStop := inStop s;
           outOpen := outOpen s; written := written s; lost := lost s; taken := S (taken s) |}
      else s
  | EWork i =>
      let r := get (rs s) i in
      match rQueued r with
      | O => s
      | S q =>
          {| rs := upd (rs s) i {| rStopped := rStopped r; rQueued := q |}; prog := prog s; inStop := inStop s;
             outOpen := outOpen s;
             written := if outOpen s then S (written s) else written s;      (* Send on a closed output: the record is lost *)
             lost := if outOpen s then lost s else S (lost s); taken := taken s |}
      end
  | EMain =>
      match prog s with
      | [] => s
      | MClose :: rest =>
          {| rs := rs s; prog := rest; inStop := false; outOpen := false; written := written s; lost := lost s; taken := taken s |}
      | MStop i :: rest =>
          let r := get (rs s) i in
          if inStop s then
            (* inside Stop: returns when the queue is drained *)
            match rQueued r with
            | O => {| rs := rs s; prog := rest; inStop := false; outOpen := outOpen s; written := written s; lost := lost s; taken := taken s |}
            | S _ => s
            end
          else if rStopped r then
            (* "receiver is already stopped": an error, and on to the next statement *)
            {| rs := rs s; prog := rest; inStop := false; outOpen := outOpen s; written := written s; lost := lost s; taken := taken s |}
          else
            {| rs := upd (rs s) i {| rStopped := true; rQueued := rQueued r |}; prog := prog s; inStop := true;
               outOpen := outOpen s; written := written s; lost := lost s; taken := taken s |}
      end
  end.

Definition run (s : sys) (es : list event) : sys := fold_left step es s.

(* main.go: stop every receiver, in order, then close the output *)
Definition main_prog (n : nat) : list mainop := map MStop (seq 0 n) ++ [MClose].
(* seed C18-7: the receivers stopped through a closure over the loop variable -- the LAST receiver gets every Stop *)
Definition closure_prog (n : nat) : list mainop := repeat (MStop (n - 1)) n ++ [MClose].

Definition start (n : nat) (p : list mainop) : sys :=
  {| rs := repeat {| rStopped := false; rQueued := 0 |} n; prog := p; inStop := false;
     outOpen := true; written := 0; lost := 0; taken := 0 |}.
