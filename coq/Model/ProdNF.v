(* producer/proto/producer_nf.go, producer_nflegacy.go and the per-packet stamping of proto.go
   (repaired tree). *)
From Coq Require Import String NArith List Bool.
From GF Require Import Base.Res Base.Bytes Model.Msg Model.NF Model.NFv5 Model.Packet.
Import ListNotations.
Open Scope N_scope.

Definition two64 := 18446744073709551616.
Definition sub64 (a b : N) : N := (a + two64 - b mod two64) mod two64.
Definition mul64 (a b : N) : N := (a * b) mod two64.

(* producer configuration as the producers see it *)
Record prodcfg := { pNF9 : list nfmap; pIPFIX : list nfmap; pPacket : pcfg; pNilCfg : bool }.
Definition empty_prodcfg : prodcfg := {| pNF9 := []; pIPFIX := []; pPacket := empty_pcfg; pNilCfg := false |}.

(* NetFlowMapper.Map: key "penprovided-pen-type" *)
Definition nf_lookup (maps : list nfmap) (f : dfield) : option mapcfg :=
  match find (fun c => Bool.eqb (nPenP c) (dPenP f) && (nPen c =? dPen f) && (nType c =? dType f)) (rev maps) with
  | Some c => Some (nMap c)
  | None => None
  end.

(* addrReplaceCheck *)
Definition all_zero (v : bytes) : bool := forallb (fun b => b =? 0) v.
Definition addr_replace (m : msg) (col : N) (v : bytes) (v6 : bool) : msg :=
  let cur := mgetB m col in
  let nonempty (b : bytes) := negb (Nat.eqb (length b) 0) in
  if (negb (nonempty cur) && nonempty v) || (nonempty cur && nonempty v && negb (all_zero v)) then
    msetI (msetB m col v) cEtype (if v6 then 34525 else 2048)
  else m.

Definition set_u (m : msg) (col : N) (v : bytes) : res msg :=
  let* x := dec_unum (col_bits col) v in Ok (msetI m col x).

(* MplsLabel[i] = label>>4 with the slice grown to i+1 entries *)
Definition set_label (m : msg) (i : nat) (v : bytes) : res msg :=
  let* x := dec_unum 32 v in
  let l := mgetLI m cMplsLabel in
  let l' := if Nat.ltb (length l) (S i) then l ++ repeat 0 (S i - length l) else l in
  Ok (mset m cMplsLabel (VLI (firstn i l' ++ [x / 16] ++ skipn (S i) l'))).

(* the switch of ConvertNetFlowDataSet for one non-enterprise field *)
Definition nf_field (cfg : prodcfg) (ver base uptime : N) (m : msg) (ty : N) (v : bytes) : res msg :=
  let baseNs := base * 1000000000 in
  match ty with
  | 138 => set_u m cObsPoint v
  | 1 | 23 => set_u m cBytes v
  | 2 | 24 => set_u m cPackets v
  | 7 => set_u m cSrcPort v
  | 11 => set_u m cDstPort v
  | 4 => set_u m cProto v
  | 16 => set_u m cSrcAs v
  | 17 => set_u m cDstAs v
  | 10 => set_u m cInIf v
  | 14 => set_u m cOutIf v
  | 89 => set_u m cFwdStatus v
  | 5 => set_u m cIpTos v
  | 6 => set_u m cTcpFlags v
  | 52 => set_u m cIpTtl v
  | 60 => match v with
          | 4 :: _ => Ok (msetI m cEtype 2048)
          | 6 :: _ => Ok (msetI m cEtype 34525)
          | _ => Ok m
          end
  | 8 => Ok (addr_replace m cSrcAddr v false)
  | 12 => Ok (addr_replace m cDstAddr v false)
  | 9 | 29 => set_u m cSrcNet v
  | 13 | 30 => set_u m cDstNet v
  | 27 => Ok (addr_replace m cSrcAddr v true)
  | 28 => Ok (addr_replace m cDstAddr v true)
  | 15 | 62 => Ok (msetB m cNextHop v)
  | 18 | 63 => Ok (msetB m cBgpNextHop v)
  | 32 | 139 =>
      let* x := dec_unum 16 v in Ok (msetI (msetI m cIcmpType (x / 256)) cIcmpCode (x mod 256))
  | 176 | 178 => set_u m cIcmpType v
  | 177 | 179 => set_u m cIcmpCode v
  | 56 | 81 => set_u m cSrcMac v
  | 80 | 57 => set_u m cDstMac v
  | 58 => let* m1 := set_u m cVlanId v in set_u m1 cSrcVlan v
  | 59 => set_u m cDstVlan v
  | 54 => set_u m cFragId v
  | 88 => set_u m cFragOff v
  | 197 => let* x := dec_unum 32 v in Ok (msetI m cIpFlags (x / 32))
  | 31 => set_u m cFlowLabel v
  | 70 => set_label m 0 v
  | 71 => set_label m 1 v
  | 72 => set_label m 2 v
  | 47 | 140 => Ok (mset m cMplsIp (VLB (mgetLB m cMplsIp ++ [v])))
  | _ =>
      if ver =? 9 then
        let upNs := uptime * 1000000 in
        match ty with
        | 22 => let* t := dec_unum 32 v in Ok (msetI m cTimeStart (sub64 baseNs (sub64 upNs (t * 1000000))))
        | 21 => let* t := dec_unum 32 v in Ok (msetI m cTimeEnd (sub64 baseNs (sub64 upNs (t * 1000000))))
        | _ => Ok m
        end
      else if ver =? 10 then
        match ty with
        | 150 => let* t := dec_unum 64 v in Ok (msetI m cTimeStart (mul64 t 1000000000))
        | 152 => let* t := dec_unum 64 v in Ok (msetI m cTimeStart (mul64 t 1000000))
        | 154 => let* t := dec_unum 64 v in Ok (msetI m cTimeStart (mul64 t 1000))
        | 156 => let* t := dec_unum 64 v in Ok (msetI m cTimeStart t)
        | 151 => let* t := dec_unum 64 v in Ok (msetI m cTimeEnd (mul64 t 1000000000))
        | 153 => let* t := dec_unum 64 v in Ok (msetI m cTimeEnd (mul64 t 1000000))
        | 155 => let* t := dec_unum 64 v in Ok (msetI m cTimeEnd (mul64 t 1000))
        | 157 => let* t := dec_unum 64 v in Ok (msetI m cTimeEnd t)
        | 158 => let* t := dec_unum 64 v in Ok (msetI m cTimeStart (sub64 baseNs (mul64 t 1000)))
        | 159 => let* t := dec_unum 64 v in Ok (msetI m cTimeEnd (sub64 baseNs (mul64 t 1000)))
        | 312 => let* m1 := set_u m cBytes v in Ok (msetI m1 cPackets 1)
        | 315 =>
            let* m1 := parse_packet (pPacket cfg) m v in
            let m2 := msetI m1 cPackets 1 in
            Ok (if mgetI m2 cBytes =? 0 then msetI m2 cBytes (lenN v) else m2)
        | _ => Ok m
        end
      else Ok m
  end.

(* ConvertNetFlowDataSet *)
Fixpoint nf_fields (cfg : prodcfg) (ver base uptime : N) (m : msg) (r : drec) : res msg :=
  match r with
  | [] => Ok m
  | f :: r' =>
      match dVal f with
      | None => nf_fields cfg ver base uptime m r'
      | Some v =>
          let* m1 := match nf_lookup (if ver =? 9 then pNF9 cfg else pIPFIX cfg) f with
                     | Some c => map_custom m v c
                     | None => Ok m
                     end in
          let* m2 := if dPenP f then Ok m1 else nf_field cfg ver base uptime m1 (dType f) v in
          nf_fields cfg ver base uptime m2 r'
      end
  end.

Definition convert_nf (cfg : prodcfg) (ver base uptime : N) (r : drec) : res msg :=
  let m0 := msetI (msetI empty_msg cTimeStart (base * 1000000000)) cTimeEnd (base * 1000000000) in
  let m1 := if ver =? 9 then msetI m0 cType 3 else if ver =? 10 then msetI m0 cType 4 else m0 in
  nf_fields cfg ver base uptime m1 r.

(* SearchNetFlowDataSets over the DataFlowSets of the packet, in order *)
Fixpoint convert_recs (cfg : prodcfg) (ver base uptime : N) (rs : list drec) : res (list msg) :=
  match rs with
  | [] => Ok []
  | r :: rs' =>
      let* m := convert_nf cfg ver base uptime r in
      let* ms := convert_recs cfg ver base uptime rs' in
      Ok (m :: ms)
  end.
Definition data_records (sets : list flowset) : list drec :=
  flat_map (fun s => match s with FSData _ _ rs => rs | _ => [] end) sets.
Definition optdata_records (sets : list flowset) : list odrec :=
  flat_map (fun s => match s with FSOptData _ _ rs => rs | _ => [] end) sets.

(* NetFlowPopulate(record.OptionsValues, typeId, &samplingRate uint32) *)
Definition look_for (fs : list dfield) (ty : N) : option dfield :=
  find (fun f => negb (dPenP f) && (dType f =? ty)) fs.
Definition populate (fs : list dfield) (ty : N) (cur : N) : res (bool * N) :=
  match look_for fs ty with
  | None => Ok (false, cur)
  | Some f =>
      match dVal f with
      | None => Ok (true, cur)
      | Some v => let* (x, _) := rd 4 v in Ok (true, x)
      end
  end.
(* SearchNetFlowOptionDataSets *)
Fixpoint find_sampling (rs : list odrec) (cur : N) : res (bool * N) :=
  match rs with
  | [] => Ok (false, cur)
  | (_, ov) :: r =>
      let* (f1, c1) := populate ov 305 cur in if f1 then Ok (true, c1) else
      let* (f2, c2) := populate ov 50 c1 in if f2 then Ok (true, c2) else
      let* (f3, c3) := populate ov 34 c2 in if f3 then Ok (true, c3) else
      find_sampling r c3
  end.

(* sampling store of one ProtoProducer: exporter IP -> (version, domain) -> rate *)
Definition skey := (N * N * N)%type. (* ip, version, domain *)
Definition sstore := list (skey * N).
Definition skey_eqb (a b : skey) : bool :=
  let '(a1, a2, a3) := a in let '(b1, b2, b3) := b in (a1 =? b1) && (a2 =? b2) && (a3 =? b3).
Fixpoint sstore_get (s : sstore) (k : skey) : option N :=
  match s with [] => None | (k', v) :: r => if skey_eqb k' k then Some v else sstore_get r k end.

(* ProcessMessageNetFlowV9Config / ProcessMessageIPFIXConfig + the enrichment of Produce *)
Definition produce_nf (cfg : prodcfg) (ss : sstore) (ip : N) (p : nfpkt) : res (list msg) * sstore :=
  let ver := pVer p in
  let h := pHdr p in
  let seq := if ver =? 9 then nth 3%nat h 0 else nth 2%nat h 0 in
  let base := if ver =? 9 then nth 2%nat h 0 else nth 1%nat h 0 in
  let uptime := if ver =? 9 then nth 1%nat h 0 else 0 in
  let dom := nf_dom ver h in
  match convert_recs cfg ver base uptime (data_records (pSets p)) with
  | Ok ms =>
      match find_sampling (optdata_records (pSets p)) 0 with
      | Ok (found, rate) =>
          let ss' := if found then ((ip, ver, dom), rate) :: ss else ss in
          let rate' := if found then rate else match sstore_get ss (ip, ver, dom) with Some r => r | None => 0 end in
          (Ok (map (fun m => msetI (msetI (msetI m cSeq seq) cSamplingRate rate') cObsDomain dom) ms), ss')
      | Err e => (Err e, ss) | Panic => (Panic, ss) | OutOfFuel => (OutOfFuel, ss)
      end
  | Err e => (Err e, ss) | Panic => (Panic, ss) | OutOfFuel => (OutOfFuel, ss)
  end.

(* ---- NetFlow v5 (producer_nflegacy.go) -------------------------------------------------- *)
Definition two32 := 4294967296.
Definition convert_v5 (base uptime : N) (r : v5rec) : msg :=
  let g i := nth i r 0 in
  let dFirst := (uptime + two32 - g 7%nat) mod two32 in
  let dLast := (uptime + two32 - g 8%nat) mod two32 in
  let m := msetI empty_msg cType 2 in
  let m := msetI m cTimeStart (sub64 base (dFirst * 1000000)) in
  let m := msetI m cTimeEnd (sub64 base (dLast * 1000000)) in
  let m := msetB m cNextHop (enc_be 4 (g 2%nat)) in
  let m := msetB m cSrcAddr (enc_be 4 (g 0%nat)) in
  let m := msetB m cDstAddr (enc_be 4 (g 1%nat)) in
  let m := msetI m cEtype 2048 in
  let m := msetI m cSrcAs (g 15%nat) in
  let m := msetI m cDstAs (g 16%nat) in
  let m := msetI m cSrcNet (g 17%nat) in
  let m := msetI m cDstNet (g 18%nat) in
  let m := msetI m cProto (g 13%nat) in
  let m := msetI m cTcpFlags (g 12%nat) in
  let m := msetI m cIpTos (g 14%nat) in
  let m := msetI m cInIf (g 3%nat) in
  let m := msetI m cOutIf (g 4%nat) in
  let m := msetI m cSrcPort (g 9%nat) in
  let m := msetI m cDstPort (g 10%nat) in
  let m := msetI m cPackets (g 5%nat) in
  msetI m cBytes (g 6%nat).

Definition produce_v5 (p : v5pkt) : list msg :=
  let (h, rs) := p in
  let g i := nth i h 0 in
  let base := (g 2%nat * 1000000000 + g 3%nat) mod two64 in
  map (fun r => msetI (msetI (convert_v5 base (g 1%nat) r) cSeq (g 4%nat)) cSamplingRate (g 7%nat mod 16384)) rs.

(* Produce's enrichment for NetFlow: receive time and unmapped sampler address *)
Definition stamp_nf (tr : N) (sa : bytes) (m : msg) : msg := msetB (msetI m cTimeRecv tr) cSamplerAddr sa.
