(* utils/pipe.go: NetFlowPipe.DecodeFlow with the producer of producer/proto/proto.go
   (repaired tree: flows decoded next to an unknown-template set are still produced). *)
From Coq Require Import String NArith List Bool.
From GF Require Import Base.Res Base.Bytes Base.Layout Model.Msg Model.NF Model.NFv5 Model.Packet Model.ProdNF Model.SFlow Model.ProdSF.
Import ListNotations.
Open Scope N_scope.

(* exporter = UDP source address (4 or 16 bytes) and port *)
Record exporter := { eAddr : bytes; ePort : N }.
Definition addr_id (a : bytes) : N := N.of_nat (length a) * 340282366920938463463374607431768211456 + be a.
Definition exp_id (e : exporter) : N := addr_id (eAddr e) * 65536 + ePort e.

(* netip.Addr.Unmap().MarshalBinary() *)
Definition unmap (a : bytes) : bytes :=
  if Nat.eqb (length a) 16 && (be (firstn 12 a) =? 65535) then skipn 12 a else a.

(* p.templates: map[Src.String()] -> template system *)
Definition tstores := list (N * store).
Fixpoint tstores_get (t : tstores) (k : N) : store :=
  match t with [] => [] | (k', s) :: r => if k' =? k then s else tstores_get r k end.

Record pstate := { psT : tstores; psS : sstore }.
Definition init_pstate : pstate := {| psT := []; psS := [] |}.

Inductive outcome := ONone | OErr | OTnf.
(* one DecodeFlow call: new state, error class, payloads handed to Send, in order *)
Definition stepres := (pstate * outcome * list msg)%type.

Definition nf_step (cfg : prodcfg) (st : pstate) (e : exporter) (tr : N) (d : bytes) : res stepres :=
  let key := exp_id e in
  let ts := tstores_get (psT st) key in
  let stamp := stamp_nf tr (unmap (eAddr e)) in
  match rd 2 d with
  | Ok (ver, d0) =>
      if ver =? 5 then
        match decode_v5_body d0 with
        | Ok p => Ok (st, ONone, map stamp (produce_v5 p))
        | Err _ => Ok (st, OErr, [])
        | Panic => Panic | OutOfFuel => OutOfFuel
        end
      else if (ver =? 9) || (ver =? 10) then
        let st1 := {| psT := (key, decode_nf_body_st ts ver d0) :: psT st; psS := psS st |} in
        match decode_nf_body ts ver d0 with
        | Ok (p, tnf, _) =>
            match produce_nf cfg (psS st) (addr_id (eAddr e)) p with
            | (Ok ms, ss') =>
                Ok ({| psT := psT st1; psS := ss' |}, if tnf then OTnf else ONone, map stamp ms)
            | (Err _, ss') => Ok ({| psT := psT st1; psS := ss' |}, OErr, [])
            | (Panic, _) => Panic
            | (OutOfFuel, _) => OutOfFuel
            end
        | Err _ => Ok (st1, OErr, [])
        | Panic => Panic | OutOfFuel => OutOfFuel
        end
      else Ok (st, OErr, [])
  | Err _ => Ok (st, OErr, [])
  | Panic => Panic | OutOfFuel => OutOfFuel
  end.

(* SFlowPipe.DecodeFlow *)
Definition sf_step (cfg : prodcfg) (st : pstate) (e : exporter) (tr : N) (d : bytes) : res stepres :=
  match decode_sf d with
  | Ok p =>
      match produce_sf (pPacket cfg) tr p with
      | Ok ms => Ok (st, ONone, ms)
      | Err _ => Ok (st, OErr, [])
      | Panic => Panic | OutOfFuel => OutOfFuel
      end
  | Err _ => Ok (st, OErr, [])
  | Panic => Panic | OutOfFuel => OutOfFuel
  end.

(* AutoFlowPipe.DecodeFlow: protocol sniffing on the first four bytes *)
Definition flow_step (cfg : prodcfg) (st : pstate) (e : exporter) (tr : N) (d : bytes) : res stepres :=
  match rd 4 d with
  | Ok (proto, _) =>
      if proto =? 5 then sf_step cfg st e tr d
      else let v := proto / 65536 in
           if (v =? 5) || (v =? 9) || (v =? 10) then nf_step cfg st e tr d
           else Ok (st, OErr, [])
  | Err _ => Ok (st, OErr, [])
  | Panic => Panic | OutOfFuel => OutOfFuel
  end.

Inductive pipekind := PKNetFlow | PKSFlow | PKFlow.
Definition pipe_step (k : pipekind) :=
  match k with PKNetFlow => nf_step | PKSFlow => sf_step | PKFlow => flow_step end.

Local Open Scope string_scope.
Definition show_outcome (o : outcome) : tok :=
  match o with ONone => TS "ok" | OErr => TS "err" | OTnf => TS "tnf" end.
Definition show_step (r : res stepres) : list tok :=
  match r with
  | Ok (_, o, ms) => show_outcome o :: TN (N.of_nat (length ms)) :: flat_map show_msg ms
  | Err e => [err_tok e]
  | Panic => [TS "panic"]
  | OutOfFuel => [TS "fuel"]
  end.
Definition step_state (st : pstate) (r : res stepres) : pstate :=
  match r with Ok (st', _, _) => st' | _ => st end.

(* a history: (exporter, receive time, datagram) list through one pipe *)
Fixpoint pipe_run (k : pipekind) (cfg : prodcfg) (st : pstate) (h : list (exporter * N * bytes)) : list tok :=
  match h with
  | [] => []
  | (e, tr, d) :: r =>
      let s := pipe_step k cfg st e tr d in
      show_step s ++ TS "|" :: pipe_run k cfg (step_state st s) r
  end.
Definition nf_run := pipe_run PKNetFlow.
