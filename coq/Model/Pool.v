(* producer/proto/messages.go protoMessagePool and the Get / Reset / fill / Commit cycle of the
   producers: what a message taken from the pool may contain, and what Reset keeps. *)
From Coq Require Import String NArith List Bool.
From GF Require Import Base.Res Base.Bytes Model.Msg Model.NF Model.Packet Model.ProdNF.
Import ListNotations.
Open Scope N_scope.

(* a pooled message: the flow message with its custom (unknown) fields, and the formatter pointer
   stamped by the last Produce.  (skipDelimiter is written by no production code.) *)
Record pooled := { pMsg : msg; pFormatter : N }.

(* FlowMessage.Reset() -- promoted to ProtoProducerMessage: clears every column and the unknown
   fields, leaves the formatter *)
Definition reset (p : pooled) : pooled := {| pMsg := empty_msg; pFormatter := pFormatter p |}.

(* SearchNetFlowDataSetsRecords: fmsg := pool.Get(); fmsg.Reset(); ConvertNetFlowDataSet(fmsg, ...) ;
   Produce then stamps the producer's formatter *)
Definition convert_nf_pooled (fmt : N) (cfg : prodcfg) (ver base uptime : N) (p : pooled) (r : drec) : res pooled :=
  let m0 := pMsg (reset p) in
  let m1 := msetI (msetI m0 cTimeStart (base * 1000000000)) cTimeEnd (base * 1000000000) in
  let m2 := if ver =? 9 then msetI m1 cType 3 else if ver =? 10 then msetI m1 cType 4 else m1 in
  let* m := nf_fields cfg ver base uptime m2 r in
  Ok {| pMsg := m; pFormatter := fmt |}.
