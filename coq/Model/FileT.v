(* transport/file/transport.go: senders and SIGHUP rotations as atomic steps over files that are
   lists of written units (message ++ separator).  Pinned protocol: Send picks the writer under the
   read lock, releases it, then writes.  Repaired: the read lock is held until the write is done,
   so a rotation (write lock) cannot fall in between. *)
From Coq Require Import List NArith Bool Arith.
From GF Require Import Model.First.
Import ListNotations.

Inductive spc := SPick | SWrite | SDone | SErr.
Record sender := { spcw : spc; held : nat; mid : nat }.

(* files by generation; only generation cur is open *)
Record fstate := { cur : nat; files : list (list nat) }.

Definition fsys := (fstate * list sender)%type.

Definition sstep (s : fstate) (w : sender) : fstate * sender :=
  match spcw w with
  | SPick => (s, {| spcw := SWrite; held := cur s; mid := mid w |})
  | SWrite =>
      if Nat.eqb (held w) (cur s) then
        ({| cur := cur s; files := upd (held w) (nth (held w) (files s) [] ++ [mid w]) (files s) |},
         {| spcw := SDone; held := held w; mid := mid w |})
      else (s, {| spcw := SErr; held := held w; mid := mid w |})   (* write on a closed file *)
  | _ => (s, w)
  end.

Definition in_write (ws : list sender) : bool :=
  existsb (fun w => match spcw w with SWrite => true | _ => false end) ws.

(* actor i < length senders: sender i ; any other index: the SIGHUP handler *)
Definition fstep (repaired : bool) (st : fsys) (i : nat) : fsys :=
  match nth_error (snd st) i with
  | Some w => let (s', w') := sstep (fst st) w in (s', upd i w' (snd st))
  | None =>
      if repaired && in_write (snd st) then st     (* write lock waits for the readers *)
      else ({| cur := S (cur (fst st)); files := files (fst st) ++ [[]] |}, snd st)
  end.
Definition frun (repaired : bool) (sched : list nat) (st : fsys) : fsys := fold_left (fstep repaired) sched st.
Definition finit (ids : list nat) : fsys :=
  ({| cur := 0; files := [[]] |}, map (fun m => {| spcw := SPick; held := 0; mid := m |}) ids).

Definition written (st : fsys) : list nat := concat (files (fst st)).
Definition errors (st : fsys) : nat := length (filter (fun w => match spcw w with SErr => true | _ => false end) (snd st)).

(* a third protocol (seed C19-5): the write happens after the read lock is released, and a rotation keeps the
   replaced file open until the NEXT rotation: a sender may still write to the generation just before cur *)
Definition sstep_grace (s : fstate) (w : sender) : fstate * sender :=
  match spcw w with
  | SPick => (s, {| spcw := SWrite; held := cur s; mid := mid w |})
  | SWrite =>
      if Nat.leb (cur s) (S (held w)) then
        ({| cur := cur s; files := upd (held w) (nth (held w) (files s) [] ++ [mid w]) (files s) |},
         {| spcw := SDone; held := held w; mid := mid w |})
      else (s, {| spcw := SErr; held := held w; mid := mid w |})
  | _ => (s, w)
  end.
Definition fstep_grace (st : fsys) (i : nat) : fsys :=
  match nth_error (snd st) i with
  | Some w => let (s', w') := sstep_grace (fst st) w in (s', upd i w' (snd st))
  | None => ({| cur := S (cur (fst st)); files := files (fst st) ++ [[]] |}, snd st)
  end.
Definition frun_grace (sched : list nat) (st : fsys) : fsys := fold_left fstep_grace sched st.
